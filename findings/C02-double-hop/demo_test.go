// place in modules/coinswap/keeper/ ; run: go test -vet=off -count=1 -run 'TestKeeperTestSuite/TestVerifDoubleHopRecipient' ./keeper/
package keeper_test

import (
	"time"

	sdkmath "cosmossdk.io/math"
	sdk "github.com/cosmos/cosmos-sdk/types"

	"mods.irisnet.org/modules/coinswap/types"
)

// Routed token-to-token swap with recipient != sender: the intermediate standard coin must net to zero
// for both (property C02). Before the fix the sender lost it and the recipient kept it.
func (suite *TestSuite) TestVerifDoubleHopRecipient() {
	sender, _ := createReservePool(suite, denomBTC)
	recipient, _ := createReservePool(suite, denomETH)
	for _, buy := range []bool{true, false} {
		sBefore := suite.app.BankKeeper.GetBalance(suite.ctx, sender, denomStandard)
		rBefore := suite.app.BankKeeper.GetBalance(suite.ctx, recipient, denomStandard)
		msg := types.NewMsgSwapOrder(
			types.Input{Coin: sdk.NewCoin(denomBTC, sdkmath.NewInt(1000)), Address: sender.String()},
			types.Output{Coin: sdk.NewCoin(denomETH, sdkmath.NewInt(50)), Address: recipient.String()},
			time.Now().Add(time.Minute).Unix(), buy)
		suite.Require().NoError(suite.keeper.Swap(suite.ctx, msg))
		sAfter := suite.app.BankKeeper.GetBalance(suite.ctx, sender, denomStandard)
		rAfter := suite.app.BankKeeper.GetBalance(suite.ctx, recipient, denomStandard)
		suite.Require().Equal(sBefore.String(), sAfter.String(), "sender's standard-coin balance must net to zero (buy=%v)", buy)
		suite.Require().Equal(rBefore.String(), rAfter.String(), "recipient's standard-coin balance must net to zero (buy=%v)", buy)
	}
}
