// place in modules/token/types/ ; run: go test -vet=off -count=1 -run TestVerifLossLessSwapNoOverMint ./types/
package types

import (
	"testing"

	"cosmossdk.io/math"
)

// Counterexamples produced by the verifier (obligations LossLessSwap#post:nooverburn / noovermint) and
// replayed on the real function.
func TestVerifLossLessSwapNoOverMint(t *testing.T) {
	// (1, ratio 2, scales 1 -> 0): the old code returned a burn of -1
	burn, mint := LossLessSwap(math.NewInt(1), math.LegacyNewDec(2), 1, 0)
	if burn.IsNegative() || burn.GT(math.NewInt(1)) {
		t.Fatalf("burned %s of an offered 1", burn)
	}
	_ = mint
	// (8, ratio 2, scales 1 -> 0): old code burned 2 and minted 1 although 8 units are worth 1.6 -> 1 needs 5
	burn, mint = LossLessSwap(math.NewInt(8), math.LegacyNewDec(2), 1, 0)
	// minted/10^0 <= burned/10^1 * 2   <=>  minted*10 <= burned*2
	if mint.MulRaw(10).GT(burn.MulRaw(2)) {
		t.Fatalf("minted %s for a burn of %s (worth %s/10)", mint, burn, burn.MulRaw(2))
	}
	// (6, ratio 34e-18, scales 2 -> 18): old code burned 5 and minted 2 (5 units are worth 1.7)
	ratio := math.LegacyNewDecWithPrec(34, 18)
	burn, mint = LossLessSwap(math.NewInt(6), ratio, 2, 18)
	// minted * 10^18 <= burned * rawRatio * 10^16
	lhs := mint.Mul(math.NewIntWithDecimal(1, 18))
	rhs := burn.Mul(math.NewInt(34)).Mul(math.NewIntWithDecimal(1, 16))
	if lhs.GT(rhs) {
		t.Fatalf("minted %s for a burn of %s: over-mint", mint, burn)
	}
}
