// place in modules/token/keeper/ ; run: go test -vet=off -count=1 -run 'TestKeeperSuite/TestVerifAnteFeeOrder' ./keeper/
package keeper_test

import (
	storetypes "cosmossdk.io/store/types"
	sdk "github.com/cosmos/cosmos-sdk/types"
	"google.golang.org/protobuf/proto"

	"mods.irisnet.org/modules/token/keeper"
	v1 "mods.irisnet.org/modules/token/types/v1"
)

type verifTx struct{ msgs []sdk.Msg }

func (t verifTx) GetMsgs() []sdk.Msg                    { return t.msgs }
func (t verifTx) GetMsgsV2() ([]proto.Message, error) { return nil, nil }

// The result of a transaction (gas used and error) is a function of chain data (C11). Before the fix the token fee
// ante decorator checked the owners' balances while ranging over a Go map and stopped at the first poor owner, so
// the number of balance reads (gas used, part of the block's results hash) and the reported error changed from run
// to run for a transaction with several owners.
func (suite *KeeperTestSuite) TestVerifAnteFeeOrder() {
	dec := keeper.NewValidateTokenFeeDecorator(suite.keeper, suite.bk)
	// owner can pay, add2 and a third account cannot
	add3 := sdk.AccAddress([]byte("verif-third-account.."))
	tx := verifTx{msgs: []sdk.Msg{
		&v1.MsgIssueToken{Symbol: "aaa", Owner: owner.String()},
		&v1.MsgIssueToken{Symbol: "bbbb", Owner: add2.String()},
		&v1.MsgIssueToken{Symbol: "ccccc", Owner: add3.String()},
	}}
	next := func(ctx sdk.Context, tx sdk.Tx, simulate bool) (sdk.Context, error) { return ctx, nil }
	run := func() (uint64, string) {
		ctx := suite.ctx.WithGasMeter(storetypes.NewInfiniteGasMeter())
		_, err := dec.AnteHandle(ctx, tx, false, next)
		suite.Require().Error(err)
		return ctx.GasMeter().GasConsumed(), err.Error()
	}
	gas0, err0 := run()
	for i := 0; i < 40; i++ {
		gas, err := run()
		suite.Require().Equal(gas0, gas, "gas used differs between two executions of the same transaction")
		suite.Require().Equal(err0, err, "error differs between two executions of the same transaction")
	}
}
