package keeper_test

// Demonstration of finding C12-oracle-import-values (copy to modules/oracle/keeper/zz_finding_test.go and run
// `cd modules/oracle && go test -vet=off -count=1 -run TestFindingOracleImportValues ./keeper/`).
// A feed with three recorded values is exported and re-imported: on the original code InitGenesis files every listed
// value under the same key (the request context's current batch counter), so only one value survives the import.

import (
	"strings"
	"testing"
	"time"

	"cosmossdk.io/math"
	sdk "github.com/cosmos/cosmos-sdk/types"
	"github.com/stretchr/testify/require"

	oracle "mods.irisnet.org/modules/oracle"
	"mods.irisnet.org/modules/oracle/keeper"
	"mods.irisnet.org/modules/oracle/types"
	"mods.irisnet.org/simapp"
)

func findingOracleChain(t *testing.T, sk types.ServiceKeeper) (sdk.Context, keeper.Keeper, *simapp.SimApp) {
	var injected keeper.Keeper
	app := simapp.Setup(t, false, simapp.DepinjectOptions{
		Config:    AppConfig,
		Providers: []interface{}{},
		Consumers: []interface{}{&injected},
	})
	return app.BaseApp.NewContext(false), keeper.NewKeeper(app.AppCodec(), app.GetKey(types.StoreKey), sk), app
}

func TestFindingOracleImportValues(t *testing.T) {
	sk := NewMockServiceKeeper()
	ctx, k, app := findingOracleChain(t, sk)

	msg := &types.MsgCreateFeed{
		FeedName: "btcPrice", ServiceName: "GetBtcPrice", AggregateFunc: "avg", ValueJsonPath: "last",
		LatestHistory: 5, Providers: []string{addrs[1]}, Input: `{"header":{},"body":{}}`, Timeout: 10,
		ServiceFeeCap:     sdk.NewCoins(sdk.NewCoin(sdk.DefaultBondDenom, math.NewInt(100))),
		RepeatedFrequency: 11, ResponseThreshold: 1, Creator: addrs[0], Description: "feed with history",
	}
	_, err := keeper.NewMsgServerImpl(k).CreateFeed(ctx, msg)
	require.NoError(t, err)

	// three completed batches: values recorded under batch counters 1, 2, 3
	t0 := time.Unix(1700000000, 0).UTC()
	for b := uint64(1); b <= 3; b++ {
		k.SetFeedValue(ctx, msg.FeedName, b, msg.LatestHistory, types.FeedValue{Data: []string{"1", "2", "3"}[b-1], Timestamp: t0.Add(time.Duration(b) * time.Minute)})
	}
	feed, found := k.GetFeed(ctx, msg.FeedName)
	require.True(t, found)
	// the request context is at batch 3 (as it would be after three batches)
	rc, ok := sk.cxtMap[strings.ToUpper(feed.RequestContextID)]
	require.True(t, ok)
	rc.BatchCounter = 3
	sk.cxtMap[strings.ToUpper(feed.RequestContextID)] = rc
	before := k.GetFeedValues(ctx, msg.FeedName)
	require.Len(t, before, 3)

	exported := oracle.ExportGenesis(ctx, k)
	bz := app.AppCodec().MustMarshalJSON(exported)

	ctx2, k2, app2 := findingOracleChain(t, sk)
	var imported types.GenesisState
	app2.AppCodec().MustUnmarshalJSON(bz, &imported)
	require.NoError(t, types.ValidateGenesis(imported))
	oracle.InitGenesis(ctx2, k2, imported)

	after := k2.GetFeedValues(ctx2, msg.FeedName)
	require.Equal(t, before, after, "recorded values of the feed differ after export + import")
}
