// place in modules/service/keeper/ ; run: go test -vet=off -count=1 -run 'TestKeeperTestSuite/TestVerifOwnerFeesStale' ./keeper/
package keeper_test

import (
	"cosmossdk.io/math"
	sdk "github.com/cosmos/cosmos-sdk/types"

	"mods.irisnet.org/modules/service/types"
)

// The owner-side tally of earned fees always equals the sum of the provider-side tallies, and nobody can withdraw more
// than was earned (C07). SetOwnerEarnedFees only writes the denominations present in its argument, so when withdrawing
// one provider's fees removed a denomination completely from the owner's tally, the owner's stored entry for that
// denomination kept its old value; a following owner-wide withdrawal then paid those fees a second time out of the
// request escrow, i.e. out of other consumers' pending fees.
func (suite *KeeperTestSuite) TestVerifOwnerFeesStale() {
	k, ctx := suite.keeper, suite.ctx
	k.SetOwner(ctx, testProvider, testOwner)
	k.SetOwnerProvider(ctx, testOwner, testProvider)
	k.SetOwner(ctx, testProvider1, testOwner)
	k.SetOwnerProvider(ctx, testOwner, testProvider1)

	feeA := sdk.NewCoins(sdk.NewCoin(sdk.DefaultBondDenom, math.NewInt(1000)))
	feeB := sdk.NewCoins(sdk.NewCoin("uother", math.NewInt(500)))
	// the request escrow holds both fees plus 1000 stake that belongs to pending requests of other consumers
	suite.addCoinsToModule(types.RequestAccName, feeA.Add(feeB...).Add(feeA...))
	suite.Require().NoError(k.AddEarnedFee(ctx, testProvider, feeA))
	suite.Require().NoError(k.AddEarnedFee(ctx, testProvider1, feeB))

	reqAcc := suite.app.AccountKeeper.GetModuleAddress(types.RequestAccName)
	before := suite.app.BankKeeper.GetAllBalances(ctx, reqAcc)
	earned, _ := k.GetOwnerEarnedFees(ctx, testOwner)

	suite.Require().NoError(k.WithdrawEarnedFees(ctx, testOwner, testProvider)) // provider's 950 stake
	suite.Require().NoError(k.WithdrawEarnedFees(ctx, testOwner, nil))          // the rest of the owner's fees

	after := suite.app.BankKeeper.GetAllBalances(ctx, reqAcc)
	paid := before.Sub(after...)
	suite.Require().True(earned.IsAllGTE(paid), "owner earned %s in total but %s left the request escrow", earned, paid)
}
