// Place in: modules/service/keeper/   Run: cd modules/service && go test -vet=off -count=1 -run TestFindingNoExchangeRateLeavesStaleBatchEntry ./keeper/
package keeper_test

import (
	"fmt"
	"testing"
	"time"

	tmbytes "github.com/cometbft/cometbft/libs/bytes"
	sdk "github.com/cosmos/cosmos-sdk/types"

	service "mods.irisnet.org/modules/service"
	"mods.irisnet.org/modules/service/types"
)

// A provider prices its service in a denomination for which no exchange rate is available (no oracle module service
// registered / the feed does not exist). When the batch of a running context falls due, the end blocker emits the
// "no exchange rate" event and returns from the handler BEFORE removing the entry from the new-batch queue.
// The entry (and the per-context index behind HasNewRequestBatch) then stays in the queue at a height that has passed:
// it is never looked at again, the context stays RUNNING and never issues a batch (C13: an object awaiting time-bound
// processing has exactly one queue entry at its due height; C08: contexts follow their schedule).
func TestFindingNoExchangeRateLeavesStaleBatchEntry(t *testing.T) {
	s := new(KeeperTestSuite)
	s.SetT(t)
	s.SetupTest()

	provider := testProvider
	consumer := testConsumer

	s.setServiceDefinition()
	s.setServiceBinding(true, time.Time{}, provider, testOwner)
	// re-price the binding in a denomination without exchange rate
	pricing, err := types.ParsePricing(fmt.Sprintf(`{"price":"1%s"}`, "norate"))
	s.Require().NoError(err)
	s.keeper.SetPricing(s.ctx, testServiceName, provider, pricing)

	start := int64(1000)
	ctx := s.ctx.WithBlockHeight(start)
	service.BeginBlocker(ctx, s.keeper)

	requestContextID, err := s.keeper.CreateRequestContext(
		ctx, testServiceName, []sdk.AccAddress{provider}, consumer, testInput,
		testServiceFeeCap, 60, true, 80, 5, types.RUNNING, 0, "",
	)
	s.Require().NoError(err)
	s.Require().True(s.keeper.HasNewRequestBatch(ctx, requestContextID), "the first batch is queued for the creation height")

	// the end blocker of the due height, and of many later heights
	for h := start; h <= start+100; h++ {
		s.Require().NotPanics(func() { service.EndBlocker(s.ctx.WithBlockHeight(h), s.keeper) })
	}

	requestContext, found := s.keeper.GetRequestContext(s.ctx, requestContextID)
	s.Require().True(found)
	s.Require().Equal(types.RUNNING, requestContext.State)

	// the queue entry of the height that has passed must be gone ...
	stale := 0
	s.keeper.IterateNewRequestBatch(s.ctx, start, func(id tmbytes.HexBytes, _ *types.RequestContext) { stale++ })
	s.Require().Zero(stale, "new-batch queue still holds an entry for a height that has passed")
	// ... and a running, unfinished context must still be scheduled somewhere (new batch or expiration), not forgotten
	s.Require().True(
		s.keeper.HasNewRequestBatch(s.ctx, requestContextID) || s.keeper.HasRequestBatchExpiration(s.ctx, requestContextID),
		"running context is in neither queue",
	)
}
