// place in modules/farm/keeper/ ; run: go test -vet=off -count=1 -run 'TestKeeperTestSuite/TestVerifImportAtEndHeight' ./keeper/
package keeper_test

import (
	"cosmossdk.io/math"
	tmproto "github.com/cometbft/cometbft/proto/tendermint/types"
	sdk "github.com/cosmos/cosmos-sdk/types"

	"mods.irisnet.org/modules/farm"
	"mods.irisnet.org/modules/farm/types"
)

// An exported chain state re-imports and keeps doing what users rely on (C12): a pool that is still running at export
// time must still end - and refund its remaining budget - on the re-imported chain. InitGenesis decided whether to put
// a pool back on the expiry queue with keeper.Expired, which at height == end height looks the pool up in the very
// queue that is being rebuilt: a pool whose end height equals the first height of the new chain was therefore treated
// as expired, never queued and never refunded.
func (suite *KeeperTestSuite) TestVerifImportAtEndHeight() {
	at := func(h int64) sdk.Context { return suite.app.BaseApp.NewContextLegacy(isCheckTx, tmproto.Header{Height: h}) }
	bond := func(n int64) sdk.Coin { return sdk.NewCoin(sdk.DefaultBondDenom, math.NewInt(n)) }
	pool, err := suite.keeper.CreatePool(at(1), testPoolDescription, testLPTokenDenom, 1,
		sdk.NewCoins(bond(10)), sdk.NewCoins(bond(95)), true, testCreator)
	suite.Require().NoError(err)
	suite.Require().Equal(int64(10), pool.EndHeight)

	// export after block 9, wipe the module's queue as a fresh store would be, and import as the chain restarts at 10
	gs := farm.ExportGenesis(at(9), suite.keeper)
	suite.keeper.DequeueActivePool(at(9), pool.Id, pool.EndHeight)
	farm.InitGenesis(at(10), suite.keeper, *gs)

	queued := false
	suite.keeper.IteratorExpiredPool(at(10), 10, func(p types.FarmPool) { queued = queued || p.Id == pool.Id })
	suite.Require().True(queued, "the running pool %s (end height 10) is not on the expiry queue after import at height 10", pool.Id)

	before := suite.app.BankKeeper.GetBalance(at(10), testCreator, sdk.DefaultBondDenom)
	farm.EndBlocker(at(10), suite.keeper)
	after := suite.app.BankKeeper.GetBalance(at(10), testCreator, sdk.DefaultBondDenom)
	suite.Require().Equal("95", after.Amount.Sub(before.Amount).String(), "remaining budget not refunded")
}
