// place in modules/record/ ; run: go test -vet=off -count=1 -run TestVerifRecordIdsSurviveExportImport .
package record

import (
	"encoding/hex"
	"fmt"
	"sort"
	"testing"

	storetypes "cosmossdk.io/store/types"
	"github.com/cosmos/cosmos-sdk/codec"
	codectypes "github.com/cosmos/cosmos-sdk/codec/types"
	"github.com/cosmos/cosmos-sdk/testutil"

	"mods.irisnet.org/modules/record/keeper"
	"mods.irisnet.org/modules/record/types"
)

// The re-imported chain answers queries for records and their ids identically (C12). A record's id is
// sha256(record || counter) where the counter is the number of records added before it; the export lists the records in
// key (= id) order and drops ids and counter, so the import re-adds them with counters 0,1,2,... in hash order and
// every record whose export position differs from its creation position gets a different id: references to record ids
// held by users break.
func TestVerifRecordIdsSurviveExportImport(t *testing.T) {
	cdc := codec.NewProtoCodec(codectypes.NewInterfaceRegistry())
	mk := func() (keeper.Keeper, testutil.TestContext) {
		key := storetypes.NewKVStoreKey(types.StoreKey)
		return keeper.NewKeeper(cdc, key), testutil.DefaultContextWithDB(t, key, storetypes.NewTransientStoreKey("t"))
	}
	k1, c1 := mk()
	var ids []string
	for i := 0; i < 6; i++ {
		rec := types.NewRecord([]byte(fmt.Sprintf("tx%d", i)), []types.Content{{Digest: fmt.Sprintf("digest%d", i), DigestAlgo: "sha256"}}, nil)
		rec.Creator = "cosmos1deadbeef"
		ids = append(ids, hex.EncodeToString(k1.AddRecord(c1.Ctx, rec)))
	}
	gs := ExportGenesis(c1.Ctx, k1)

	k2, c2 := mk()
	for _, rec := range gs.Records { // InitGenesis without the address validation of ValidateGenesis
		k2.AddRecord(c2.Ctx, rec)
	}
	var missing []string
	for _, id := range ids {
		bz, _ := hex.DecodeString(id)
		if _, found := k2.GetRecord(c2.Ctx, bz); !found {
			missing = append(missing, id[:12])
		}
	}
	sort.Strings(missing)
	if len(missing) > 0 {
		t.Fatalf("%d of %d record ids are unknown after export and import: %v", len(missing), len(ids), missing)
	}
}
