// place in modules/farm/keeper/ ; run: go test -vet=off -count=1 -run 'TestKeeperTestSuite/TestVerifParamsTaxRate' ./keeper/
package keeper_test

import (
	sdkmath "cosmossdk.io/math"
	sdk "github.com/cosmos/cosmos-sdk/types"
)

// A parameter set accepted by Params.Validate must not make a handler abort (C16). Before the fix the tax
// rate was not validated: an unset / out-of-range rate was stored and CreatePool panicked in DeductPoolCreationFee.
func (suite *KeeperTestSuite) TestVerifParamsTaxRate() {
	for _, rate := range []sdkmath.LegacyDec{{}, sdkmath.LegacyNewDec(2), sdkmath.LegacyNewDec(-1)} {
		p := suite.keeper.GetParams(suite.ctx)
		p.TaxRate = rate
		accepted := false
		func() {
			defer func() { _ = recover() }() // a panic inside validation is a rejection
			accepted = suite.keeper.SetParams(suite.ctx, p) == nil
		}()
		if !accepted {
			continue
		}
		suite.Require().NotPanics(func() {
			_ = suite.keeper.DeductPoolCreationFee(suite.ctx, sdk.AccAddress("verif_creator_______"))
		}, "accepted tax rate makes pool creation abort")
	}
}
