// place in modules/mt/keeper/ ; run: go test -vet=off -count=1 -run TestVerifGetBalancesOrder ./keeper/
package keeper

import (
	"fmt"
	"testing"

	storetypes "cosmossdk.io/store/types"
	"github.com/cosmos/cosmos-sdk/codec"
	codectypes "github.com/cosmos/cosmos-sdk/codec/types"
	"github.com/cosmos/cosmos-sdk/testutil"
	sdk "github.com/cosmos/cosmos-sdk/types"
)

// The exported genesis is byte-identical on every run (C11). Before the fix getBalances (the only source of the
// exported owners list) appended while ranging over three nested Go maps, so two exports of one state differed.
func TestVerifGetBalancesOrder(t *testing.T) {
	key := storetypes.NewKVStoreKey("mt")
	ctx := testutil.DefaultContextWithDB(t, key, storetypes.NewTransientStoreKey("t")).Ctx
	k := NewKeeper(codec.NewProtoCodec(codectypes.NewInterfaceRegistry()), key)
	for a := 0; a < 6; a++ {
		addr := sdk.AccAddress([]byte(fmt.Sprintf("owner%015d", a)))
		for d := 0; d < 4; d++ {
			for m := 0; m < 4; m++ {
				if err := k.AddBalance(ctx, fmt.Sprintf("denom%d", d), fmt.Sprintf("mt%d", m), uint64(1+a+d+m), addr); err != nil {
					t.Fatal(err)
				}
			}
		}
	}
	first := fmt.Sprint(k.getBalances(ctx))
	for i := 0; i < 20; i++ {
		if again := fmt.Sprint(k.getBalances(ctx)); again != first {
			t.Fatalf("export %d differs from the first export of the same state:\n%s\n%s", i+2, first, again)
		}
	}
}
