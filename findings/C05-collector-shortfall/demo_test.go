// place in modules/farm/keeper/ ; run: go test -vet=off -count=1 -run 'TestKeeperTestSuite/TestVerifWithdrawAll' ./keeper/
package keeper_test

import (
	"cosmossdk.io/math"
	tmproto "github.com/cometbft/cometbft/proto/tendermint/types"
	sdk "github.com/cosmos/cosmos-sdk/types"

	"mods.irisnet.org/simapp"
)

// A farmer can always withdraw their full stake (C05). Per-farmer truncation of floor(rps*stake) - debt lets the sum of
// the pending rewards exceed what the reward collector holds: reward 9 per block, one farmer stakes 10 at height 1, ten
// farmers stake 1 each at height 2 (rps 0.9, each new debt floor(0.9) = 0); at height 3 (rps 0.9 + 9/20 = 1.35) the
// first farmer is owed 13 and each of the ten 1, in total 23, but only 18 were released. Before the fix the last five
// withdrawals failed with "insufficient funds" and the stakes could not be withdrawn.
func (suite *KeeperTestSuite) TestVerifWithdrawAll() {
	addrs := simapp.AddTestAddrs(suite.app, suite.ctx, 11, testInitCoinAmt)
	at := func(h int64) sdk.Context { return suite.app.BaseApp.NewContextLegacy(isCheckTx, tmproto.Header{Height: h}) }
	lp := func(n int64) sdk.Coin { return sdk.NewCoin(testLPTokenDenom, math.NewInt(n)) }
	pool, err := suite.keeper.CreatePool(at(1), testPoolDescription, testLPTokenDenom, 1,
		sdk.NewCoins(sdk.NewCoin(sdk.DefaultBondDenom, math.NewInt(9))), sdk.NewCoins(sdk.NewCoin(sdk.DefaultBondDenom, math.NewInt(9000))),
		testDestructible, testCreator)
	suite.Require().NoError(err)
	_, err = suite.keeper.Stake(at(1), pool.Id, lp(10), addrs[0])
	suite.Require().NoError(err)
	for i := 1; i <= 10; i++ {
		_, err = suite.keeper.Stake(at(2), pool.Id, lp(1), addrs[i])
		suite.Require().NoError(err)
	}
	for i := 0; i <= 10; i++ {
		stake := int64(1)
		if i == 0 {
			stake = 10
		}
		before := suite.app.BankKeeper.GetBalance(at(3), addrs[i], testLPTokenDenom).Amount
		_, err = suite.keeper.Unstake(at(3), pool.Id, lp(stake), addrs[i])
		suite.Require().NoError(err, "farmer %d cannot withdraw a stake of %d", i, stake)
		after := suite.app.BankKeeper.GetBalance(at(3), addrs[i], testLPTokenDenom).Amount
		suite.Require().True(after.Sub(before).GTE(math.NewInt(stake)), "farmer %d got back less than the stake", i)
	}
}
