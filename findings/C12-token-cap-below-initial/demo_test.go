package keeper_test

// Demonstration of known finding C12-token-cap-below-initial (copy to modules/token/keeper/zz_finding_test.go and run
// `cd modules/token && go test -vet=off -count=1 -run TestFindingTokenCapBelowInitial ./keeper/`).
// EditToken compares a new max supply with the CIRCULATING amount only. After a burn the owner can lower the cap below
// the token's recorded initial supply; genesis validation (Token.Validate: max supply >= initial supply) then rejects the
// chain's own export.

import (
	"testing"

	"github.com/stretchr/testify/require"

	sdk "github.com/cosmos/cosmos-sdk/types"
	sdkmath "cosmossdk.io/math"

	"mods.irisnet.org/modules/token"
	"mods.irisnet.org/modules/token/types"
	v1 "mods.irisnet.org/modules/token/types/v1"
)

func TestFindingTokenCapBelowInitial(t *testing.T) {
	suite := new(KeeperTestSuite)
	suite.SetT(t)
	suite.SetupTest()
	ctx := suite.ctx

	tok := v1.NewToken("gold", "Gold", "ugold", 0, 1000, 2000, true, owner)
	suite.issueToken(tok)

	// the owner burns 600 of the 1000 issued, then lowers the cap to 500: accepted (500 >= 400 in circulation)
	require.NoError(t, suite.keeper.BurnToken(ctx, sdk.NewCoin("ugold", sdkmath.NewInt(600)), owner))
	require.NoError(t, suite.keeper.EditToken(ctx, "gold", "Gold", 500, types.Nil, owner))

	exported := token.ExportGenesis(ctx, suite.keeper)
	require.NoError(t, v1.ValidateGenesis(*exported), "the chain's own export must be accepted by genesis validation")
}
