// place in modules/oracle/types/ ; run: go test -vet=off -count=1 -run TestVerifMaxOfNegatives ./types/
package types

import (
	"testing"

	"github.com/tidwall/gjson"
)

// The stored aggregate must be the maximum of the extracted numbers (C17). Before the fix Max started from
// math.SmallestNonzeroFloat64 (a positive number), so for all-non-positive data it returned ~0 instead of the maximum.
func TestVerifMaxOfNegatives(t *testing.T) {
	data := []ArgsType{gjson.Parse("-3.5"), gjson.Parse("-1.25"), gjson.Parse("-2")}
	if got := Max(data); got != "-1.25000000" {
		t.Fatalf("Max(-3.5,-1.25,-2) = %s, want -1.25000000", got)
	}
}
