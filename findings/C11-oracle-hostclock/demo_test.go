// place in modules/oracle/keeper/ ; run: go test -vet=off -count=1 -run 'TestKeeperTestSuite/TestVerifModuleServiceRequestClock' ./keeper/
package keeper_test

import (
	"strings"
	"time"

	"mods.irisnet.org/modules/oracle/types"
)

// The answer of the oracle's module service must be a function of chain data (C11). Before the fix it compared the
// value's timestamp with the host clock (time.Since), so a replica replaying the block later than five minutes after
// the value was written answered "all values expired" while a live node answered with the rate.
func (suite *KeeperTestSuite) TestVerifModuleServiceRequestClock() {
	// chain time far from the host clock: a block produced in 2001, replayed today
	blockTime := time.Date(2001, 1, 1, 0, 0, 0, 0, time.UTC)
	ctx := suite.ctx.WithBlockTime(blockTime)
	suite.keeper.SetFeed(ctx, types.Feed{FeedName: "pair", LatestHistory: 5})
	suite.keeper.SetFeedValue(ctx, "pair", 1, 5, types.FeedValue{Data: "1.5", Timestamp: blockTime})
	result, output := suite.keeper.ModuleServiceRequest(ctx.WithBlockTime(blockTime.Add(time.Minute)), `{"header":{},"body":{"pair":"pair"}}`)
	suite.Require().True(strings.Contains(result, `"200"`), "one chain-minute old value reported as %s", result)
	suite.Require().Contains(output, "1.5")
	// and it does expire by chain time
	result, _ = suite.keeper.ModuleServiceRequest(ctx.WithBlockTime(blockTime.Add(6*time.Minute)), `{"header":{},"body":{"pair":"pair"}}`)
	suite.Require().True(strings.Contains(result, `"402"`), result)
}
