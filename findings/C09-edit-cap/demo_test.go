// place in modules/token/keeper/ ; run: go test -vet=off -count=1 -run 'TestKeeperSuite/TestVerifEditTokenCap' ./keeper/
package keeper_test

import (
	sdkmath "cosmossdk.io/math"
	sdk "github.com/cosmos/cosmos-sdk/types"

	tokentypes "mods.irisnet.org/modules/token/types"
	v1 "mods.irisnet.org/modules/token/types/v1"
)

// The maximum supply can never be lowered below what circulates (C09). Before the fix EditToken compared the new
// maximum with floor(supply / 10^scale), so after a fractional burn the cap could be set below the circulating amount.
func (suite *KeeperTestSuite) TestVerifEditTokenCap() {
	token := v1.NewToken("vcap", "Verif Cap Token", "uvcap", 6, 1000, 2000, true, owner)
	suite.NoError(suite.keeper.IssueToken(suite.ctx, token.Symbol, token.Name, token.MinUnit, token.Scale,
		token.InitialSupply, token.MaxSupply, token.Mintable, token.GetOwner()))
	// burn one min unit: 999.999999 main units circulate
	suite.NoError(suite.keeper.BurnToken(suite.ctx, sdk.NewCoin(token.MinUnit, sdkmath.OneInt()), owner))
	err := suite.keeper.EditToken(suite.ctx, token.Symbol, v1.DoNotModify, 999, tokentypes.Nil, owner)
	if err == nil {
		t, _ := suite.keeper.GetToken(suite.ctx, token.Symbol)
		capAmt := sdkmath.NewIntFromUint64(t.GetMaxSupply()).Mul(sdkmath.NewIntWithDecimal(1, int(t.GetScale())))
		supply := suite.bk.GetSupply(suite.ctx, token.MinUnit).Amount
		suite.Require().True(capAmt.GTE(supply), "cap %s is below the circulating supply %s", capAmt, supply)
	}
}
