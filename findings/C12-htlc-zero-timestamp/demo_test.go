package keeper_test

// Demonstration of finding C12-htlc-zero-timestamp (copy to modules/htlc/keeper/zz_finding_test.go and run
// `cd modules/htlc && go test -vet=off -count=1 -run TestFindingHTLCZeroTimestamp ./keeper/`).
// The timestamp of a plain HTLC is optional (the hash lock is then sha256(secret) alone; MsgCreateHTLC.ValidateBasic and
// the keeper accept 0, only cross-chain transfers have their timestamp checked). On the original code genesis
// validation rejected every contract whose timestamp is 0, so a chain holding such a contract could not be restarted
// from its own export.

import (
	"encoding/hex"
	"testing"

	"github.com/stretchr/testify/require"

	"mods.irisnet.org/modules/htlc"
	"mods.irisnet.org/modules/htlc/keeper"
	"mods.irisnet.org/modules/htlc/types"
)

func TestFindingHTLCZeroTimestamp(t *testing.T) {
	suite := new(HTLCTestSuite)
	suite.SetT(t)
	suite.SetupTest()
	ctx := suite.ctx

	secret, err := GenerateRandomSecret()
	require.NoError(t, err)
	hashLock := types.GetHashLock(secret, 0) // no timestamp bound to the secret

	msg := &types.MsgCreateHTLC{
		Sender:   suite.addrs[1].String(),
		To:       suite.addrs[2].String(),
		Amount:   cs(c(BNB_DENOM, 1000)),
		HashLock: hex.EncodeToString(hashLock),
		TimeLock: 100,
		Transfer: false,
	}
	require.NoError(t, msg.ValidateBasic(), "a create message without timestamp is valid")
	_, err = keeper.NewMsgServerImpl(suite.keeper).CreateHTLC(ctx, msg)
	require.NoError(t, err, "a plain HTLC without timestamp is created")

	exported := htlc.ExportGenesis(ctx, suite.keeper)
	require.Len(t, exported.Htlcs, 1)
	require.NoError(t, types.ValidateGenesis(*exported), "the chain's own export must be accepted by genesis validation")
}
