// place in modules/farm/keeper/ ; run: go test -vet=off -count=1 -run 'TestKeeperTestSuite/TestVerifAdjustPoolEndHeight' ./keeper/
package keeper_test

import (
	"cosmossdk.io/math"
	tmproto "github.com/cometbft/cometbft/proto/tendermint/types"
	sdk "github.com/cosmos/cosmos-sdk/types"
	minttypes "github.com/cosmos/cosmos-sdk/x/mint/types"
)

// A pool never outlives the budget of any of its rewards, so stakes stay withdrawable (C05/C06). Before the fix
// AdjustPool recomputed the end height as a minimum over the coins *present* in the available budget. In the pool's end
// block the scheduled remainder of every reward is zero, so a top-up of only one of two rewards dropped the other from
// the minimum: the pool was extended although the second reward had nothing left, and from the next block on
// updatePool - hence Harvest, Stake and Unstake - failed with "remaining reward ... insufficient funds".
func (suite *KeeperTestSuite) TestVerifAdjustPoolEndHeight() {
	at := func(h int64) sdk.Context { return suite.app.BaseApp.NewContextLegacy(isCheckTx, tmproto.Header{Height: h}) }
	other := func(n int64) sdk.Coin { return sdk.NewCoin("uother", math.NewInt(n)) }
	bond := func(n int64) sdk.Coin { return sdk.NewCoin(sdk.DefaultBondDenom, math.NewInt(n)) }
	suite.Require().NoError(suite.app.BankKeeper.MintCoins(at(1), minttypes.ModuleName, sdk.NewCoins(other(1000))))
	suite.Require().NoError(suite.app.BankKeeper.SendCoinsFromModuleToAccount(at(1), minttypes.ModuleName, testCreator, sdk.NewCoins(other(1000))))

	pool, err := suite.keeper.CreatePool(at(1), testPoolDescription, testLPTokenDenom, 1,
		sdk.NewCoins(bond(10), other(10)), sdk.NewCoins(bond(30), other(30)), true, testCreator)
	suite.Require().NoError(err)
	suite.Require().Equal(int64(4), pool.EndHeight)
	_, err = suite.keeper.Stake(at(1), pool.Id, bond(100), testFarmer1)
	suite.Require().NoError(err)

	// top up one reward only, in the end block (the end blocker has not run yet)
	suite.Require().NoError(suite.keeper.AdjustPool(at(4), pool.Id, sdk.NewCoins(bond(100)), nil, testCreator))
	p, _ := suite.keeper.GetPool(at(4), pool.Id)
	for _, r := range suite.keeper.GetRewardRules(at(4), pool.Id) {
		budget := r.RewardPerBlock.MulRaw(p.EndHeight - 4)
		suite.Require().True(r.RemainingReward.GTE(budget),
			"pool now ends at %d but reward %s has %s left for %d blocks at %s per block", p.EndHeight, r.Reward, r.RemainingReward, p.EndHeight-4, r.RewardPerBlock)
	}
	_, err = suite.keeper.Unstake(at(5), pool.Id, bond(100), testFarmer1)
	suite.Require().NoError(err, "stake cannot be withdrawn")
}
