// place in modules/coinswap/keeper/ ; run: go test -vet=off -count=1 -run 'TestKeeperTestSuite/TestVerifParamsFeeDenom' ./keeper/
package keeper_test

import (
	"time"

	sdkmath "cosmossdk.io/math"
	sdk "github.com/cosmos/cosmos-sdk/types"

	"mods.irisnet.org/modules/coinswap/types"
)

// A parameter set accepted by Params.Validate must not make a handler abort (C16). Before the fix a pool
// creation fee with an invalid denomination passed validation and AddLiquidity (new pool) panicked in sdk.NewCoin.
func (suite *TestSuite) TestVerifParamsFeeDenom() {
	p := suite.keeper.GetParams(suite.ctx)
	p.PoolCreationFee = sdk.Coin{Denom: "", Amount: sdkmath.NewInt(1)}
	err := suite.keeper.SetParams(suite.ctx, p)
	if err != nil {
		return // rejected by validation: fine
	}
	addr := sdk.AccAddress("verif_sender________")
	_ = suite.app.AccountKeeper.NewAccountWithAddress(suite.ctx, addr)
	msg := types.NewMsgAddLiquidity(sdk.NewCoin(denomBTC, sdkmath.NewInt(10)), sdkmath.NewInt(10), sdkmath.NewInt(1), time.Now().Add(time.Minute).Unix(), addr.String())
	suite.Require().NotPanics(func() { _, _ = suite.keeper.AddLiquidity(suite.ctx, msg) }, "accepted params make AddLiquidity abort")
}
