// place in modules/htlc/types/ ; run: go test -vet=off -count=1 -run TestVerifDefaultGenesisFixed ./types/
package types_test

import (
	"os"
	"os/exec"
	"testing"
	"time"

	"mods.irisnet.org/modules/htlc/types"
)

// The default genesis (and the fallback used by ExportGenesis) is the same in every process (C11). Before the fix
// DefaultPreviousBlockTime was time.Now() evaluated at package initialisation, so two processes started at different
// wall-clock times produced different default/exported genesis documents.
func TestVerifDefaultGenesisFixed(t *testing.T) {
	if os.Getenv("VERIF_CHILD") == "1" {
		os.Stdout.WriteString(types.DefaultGenesisState().PreviousBlockTime.UTC().Format(time.RFC3339Nano))
		return
	}
	mine := types.DefaultGenesisState().PreviousBlockTime.UTC().Format(time.RFC3339Nano)
	time.Sleep(10 * time.Millisecond)
	cmd := exec.Command(os.Args[0], "-test.run", "^TestVerifDefaultGenesisFixed$")
	cmd.Env = append(os.Environ(), "VERIF_CHILD=1")
	out, err := cmd.Output()
	if err != nil {
		t.Fatal(err)
	}
	other := string(out)
	if i := len(mine); len(other) < i || other[:i] != mine {
		t.Fatalf("default genesis differs between two processes: %s vs %s", mine, other)
	}
}
