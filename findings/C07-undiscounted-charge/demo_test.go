// place in modules/service/keeper/ ; run: go test -vet=off -count=1 -run 'TestKeeperTestSuite/TestVerifChargeEqualsRequestFees' ./keeper/
package keeper_test

import (
	"time"

	sdk "github.com/cosmos/cosmos-sdk/types"
)

// A consumer is charged exactly the sum of the fees recorded on the requests issued for them (C07). The end blocker
// charges the total returned by FilterServiceProviders and then creates the requests with the fee computed by GetPrice.
// Before the fix the total was built from the undiscounted list price while the request fee carries the time/volume
// discount, so with any discount the consumer paid more than is recorded (and ever paid out or refunded): the
// difference stayed in the request escrow for good.
func (suite *KeeperTestSuite) TestVerifChargeEqualsRequestFees() {
	k, ctx := suite.keeper, suite.ctx
	suite.setServiceDefinition()
	suite.setServiceBinding(true, time.Time{}, testProvider, testOwner)
	// the consumer already made one request: the volume promotion of the test pricing (50% from volume 1) applies
	k.SetRequestVolume(ctx, testConsumer, testServiceName, testProvider, 1)

	providers := []sdk.AccAddress{testProvider}
	requestContextID, requestContext := suite.setRequestContext(ctx, testConsumer, providers, 0, 1, "")
	providers, total, _, err := k.FilterServiceProviders(ctx, testServiceName, providers, requestContext.Timeout, requestContext.ServiceFeeCap, testConsumer)
	suite.Require().NoError(err)
	suite.Require().Len(providers, 1)

	requestIDs := k.InitiateRequests(ctx, requestContextID, providers, map[string][]string{})
	var recorded sdk.Coins
	for _, id := range requestIDs {
		request, found := k.GetCompactRequest(ctx, id)
		suite.Require().True(found)
		recorded = recorded.Add(request.ServiceFee...)
	}
	suite.Require().Equal(recorded.String(), total.String(), "the consumer is charged %s for requests whose fees add up to %s", total, recorded)
}
