// place in modules/token/keeper/ ; run: go test -vet=off -count=1 -run 'TestKeeperSuite/TestVerifParamsIssueFeeDenom' ./keeper/
package keeper_test

import (
	sdkmath "cosmossdk.io/math"
	sdk "github.com/cosmos/cosmos-sdk/types"
)

// A parameter set accepted by Params.Validate must not make a handler abort (C16). Before the fix an issue-token
// base fee with an invalid denomination was accepted and the issue/mint fee computation panicked in sdk.NewCoin.
func (suite *KeeperTestSuite) TestVerifParamsIssueFeeDenom() {
	p := suite.keeper.GetParams(suite.ctx)
	p.IssueTokenBaseFee = sdk.Coin{Denom: "!", Amount: sdkmath.NewInt(60000)}
	if err := suite.keeper.SetParams(suite.ctx, p); err != nil {
		return // rejected by validation: fine
	}
	suite.Require().NotPanics(func() { _ = suite.keeper.DeductIssueTokenFee(suite.ctx, owner, "abcd") },
		"accepted params make the issue-token fee computation abort")
}
