// annotparams writes the parameter names of each function under contract into its contract header
// (//@ func Keeper.Foo  ->  //@ func Keeper.Foo(ctx, id, amount)), so that the contract's names are bound by position
// and a later rename of a parameter in the code does not detach the contract. Run once after adding contracts:
//   go run /verif/tools/annotparams /repo
package main

import (
	"fmt"
	"go/ast"
	"go/parser"
	"go/token"
	"os"
	"path/filepath"
	"regexp"
	"strings"
)

func recvName(e ast.Expr) string {
	switch t := e.(type) {
	case *ast.StarExpr:
		return recvName(t.X)
	case *ast.Ident:
		return t.Name
	case *ast.IndexExpr:
		return recvName(t.X)
	}
	return ""
}

func main() {
	root := os.Args[1]
	var files []string
	filepath.Walk(root, func(p string, info os.FileInfo, err error) error {
		if err == nil && !info.IsDir() && info.Name() == "zz_verif_contracts.go" {
			files = append(files, p)
		}
		return nil
	})
	re := regexp.MustCompile(`^(//@\s*func\s+)([A-Za-z0-9_.$*]+)\s*(\(.*\))?\s*$`)
	for _, cf := range files {
		dir := filepath.Dir(cf)
		fset := token.NewFileSet()
		pkgs, err := parser.ParseDir(fset, dir, func(fi os.FileInfo) bool { return !strings.HasSuffix(fi.Name(), "_test.go") }, 0)
		if err != nil {
			fmt.Fprintln(os.Stderr, err)
			os.Exit(1)
		}
		params := map[string]string{}
		for _, pkg := range pkgs {
			for _, f := range pkg.Files {
				for _, d := range f.Decls {
					fd, ok := d.(*ast.FuncDecl)
					if !ok {
						continue
					}
					name := fd.Name.Name
					if fd.Recv != nil && len(fd.Recv.List) > 0 {
						name = recvName(fd.Recv.List[0].Type) + "." + name
					}
					var ns []string
					for _, fl := range fd.Type.Params.List {
						if len(fl.Names) == 0 {
							ns = append(ns, "_")
						}
						for _, n := range fl.Names {
							ns = append(ns, n.Name)
						}
					}
					params[name] = "(" + strings.Join(ns, ", ") + ")"
				}
			}
		}
		src, _ := os.ReadFile(cf)
		lines := strings.Split(string(src), "\n")
		changed := 0
		for i, l := range lines {
			m := re.FindStringSubmatch(l)
			if m == nil {
				continue
			}
			ps, ok := params[m[2]]
			if !ok {
				fmt.Fprintf(os.Stderr, "%s:%d: no declaration for %s\n", cf, i+1, m[2])
				continue
			}
			nl := m[1] + m[2] + ps
			if nl != l {
				lines[i] = nl
				changed++
			}
		}
		if changed > 0 {
			os.WriteFile(cf, []byte(strings.Join(lines, "\n")), 0644)
		}
		fmt.Printf("%s: %d headers updated\n", cf, changed)
	}
}
