#!/bin/bash
# tools/finalrun.sh: thorough tier (long timeouts + must-fail / must-stay-quiet corpus) for every property, two streams.
cd /verif
mkdir -p /tmp/finalrun
run() { for p in "$@"; do s=$(date +%s); ./check $p thorough > /tmp/finalrun/$p.log 2>&1; echo "$p rc=$? $(( $(date +%s)-s ))s $(grep -c '^VIOLATION' /tmp/finalrun/$p.log) violations"; done; }
run C13 C01 C02 C03 C04 C07 C09 C10 C11 C19 &
run C05 C06 C12 C08 C14 C15 C16 C17 C18 &
wait
python3 tools/seedtable.py | tail -3
