#!/bin/bash
# tools/seedverify2.sh <Cxx> <name> : confirm a seeded change from $SEEDOUT (default /tmp/seedout2)/<Cxx>/<name> (m3, m4: property-breaking;
# b1: behaviour-preserving) in a scratch worktree of /repo HEAD, then store it under /verif/seeded/<Cxx>-<name>/ with verify.json.
set -u
id="$1"; m="$2"
src="${SEEDOUT:-/tmp/seedout2}/$id/$m"
out="/verif/seeded/$id-$m"
wt="/tmp/sv/$id-$m"
export GOFLAGS=-mod=mod GOPROXY=off GOSUMDB=off GOTOOLCHAIN=local
mkdir -p /tmp/sv "$out"
git -C /repo worktree remove --force "$wt" 2>/dev/null
git -C /repo worktree add -q --detach "$wt" HEAD || exit 2
cleanup() { git -C /repo worktree remove --force "$wt" 2>/dev/null; }
trap cleanup EXIT
cd "$wt"
files=$(grep '^+++ b/' "$src/patch.diff" | sed 's|^+++ b/||')
modules=$(echo "$files" | sed -E 's|^(modules/[^/]+).*|\1|;s|^(simapp\|e2e\|api).*|\1|' | sort -u)
benign=false; case "$m" in b*) benign=true;; esac
base_rc=0; demo_rc=1
if ! $benign; then
  demo_dir=$(python3 -c "import json;print(json.load(open('$src/meta.json'))['demo_dir'])")
  demo_run=$(python3 -c "import json;print(json.load(open('$src/meta.json'))['demo_run'])")
  cp "$src/demo_test.go" "$demo_dir/zz_seed_demo_test.go"
  base_log=$(bash -c "$demo_run" 2>&1); base_rc=$?
  rm "$demo_dir/zz_seed_demo_test.go"
fi
applies=true
git apply "$src/patch.diff" 2>/tmp/sv/$id-$m.apply.err || applies=false
build_rc=1; tests_rc=1
if $applies; then
  build_rc=0; tests_rc=0
  for module in $modules; do
    (cd "$module" && go build ./... ) >/tmp/sv/$id-$m.build.log 2>&1 || build_rc=1
    (cd "$module" && go test -vet=off -count=1 ./... ) >/tmp/sv/$id-$m.tests.log 2>&1 || tests_rc=1
  done
  if ! $benign; then
    cp "$src/demo_test.go" "$demo_dir/zz_seed_demo_test.go"
    demo_log=$(bash -c "$demo_run" 2>&1); demo_rc=$?
    echo "$demo_log" | tail -15 > /tmp/sv/$id-$m.demo.log
  fi
fi
python3 - "$out" "$id" "$m" "$applies" "$base_rc" "$build_rc" "$tests_rc" "$demo_rc" "$(git -C /repo rev-parse --short HEAD)" "$benign" <<PY
import json,sys
out,id,m,applies,base,build,tests,demo,head,benign=sys.argv[1:11]
if benign=='true':
    ok = applies=='true' and build=='0' and tests=='0'
    rec={"property":id,"change":m,"kind":"behaviour-preserving","repo_head":head,"patch_applies":applies=='true',"compiles_with_patch":build=='0',"existing_tests_pass_with_patch":tests=='0',"confirmed":ok,
     "ran":["git apply patch.diff","go build ./... in module","go test -vet=off -count=1 ./... in module"]}
else:
    ok = applies=='true' and base=='0' and build=='0' and tests=='0' and demo!='0'
    rec={"property":id,"mutation":m,"repo_head":head,"patch_applies":applies=='true',"demo_passes_without_patch":base=='0',"compiles_with_patch":build=='0',"existing_tests_pass_with_patch":tests=='0',"demo_fails_with_patch":demo!='0',"confirmed":ok,
     "ran":["demo on clean worktree","git apply patch.diff","go build ./... in module","go test -vet=off -count=1 ./... in module","demo with patch"]}
json.dump(rec,open(out+'/verify.json','w'),indent=1)
print(id,m,"confirmed" if ok else "NOT CONFIRMED",dict(applies=applies,base=base,build=build,tests=tests,demo=demo))
PY
cp "$src/patch.diff" "$src/meta.json" "$out/"
[ -f "$src/demo_test.go" ] && cp "$src/demo_test.go" "$out/"
exit 0
