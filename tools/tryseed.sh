#!/bin/bash
# tools/tryseed.sh <Cxx-name> [prop]: apply /verif/seeded/<Cxx-name>/patch.diff to a scratch copy of /repo's working tree, run the quick
# check of the property on it (evidence and replays go to the scratch directory), print the outcome, remove the copy.
set -u
name="$1"; prop="${2:-${name%%-*}}"
export GOFLAGS=-mod=mod GOPROXY=off GOSUMDB=off GOTOOLCHAIN=local
s=$(mktemp -d /tmp/tryseed-XXXXXX)
trap 'rm -rf "$s"' EXIT
rsync -a --exclude .git /repo/ "$s/repo/"
p=/verif/seeded/$name/patch_adapted.diff; [ -f "$p" ] || p=/verif/seeded/$name/patch.diff
if ! (cd "$s" && git apply --unsafe-paths -p1 --directory "$s/repo" "$p") 2>"$s/apply.err"; then
  patch -p1 -s -d "$s/repo" -i "$p" >/dev/null 2>&1 || { echo "$name: patch does not apply: $(head -1 $s/apply.err)"; exit 3; }
fi
mkdir -p "$s/out"
${GOVC:-/verif/bin/govc} check -repo "$s/repo" -verif /verif -prop "$prop" -tier quick -out "$s/out" > "$s/log" 2>&1
rc=$?
echo "$name [$prop] rc=$rc: $(grep -c '^VIOLATION' $s/log) violations: $(grep '^VIOLATION' $s/log | sed 's/.*obligation=//;s/ status=.*//' | head -10 | tr '\n' ' ')"
tail -1 "$s/log"
