#!/bin/bash
# tools/seedverify7.sh <Cxx>: round 7 (m13, m14) from /tmp/seedout7
p="$1"
for m in m13 m14; do
  [ -f /tmp/seedout7/$p/$m/patch.diff ] || { echo "$p $m: no patch"; continue; }
  SEEDOUT=/tmp/seedout7 /verif/tools/seedverify2.sh $p $m 2>&1 | tail -1
done
git -C /repo worktree remove --force /tmp/seed7/$p 2>/dev/null
