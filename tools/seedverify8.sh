#!/bin/bash
# tools/seedverify8.sh <Cxx>: round 8 (behaviour-preserving b5, b6, b7) from /tmp/seedout8
p="$1"
for m in b5 b6 b7; do
  [ -f /tmp/seedout8/$p/$m/patch.diff ] || { echo "$p $m: no patch"; continue; }
  SEEDOUT=/tmp/seedout8 /verif/tools/seedverify2.sh $p $m 2>&1 | tail -1
done
git -C /repo worktree remove --force /tmp/seed8/$p 2>/dev/null
