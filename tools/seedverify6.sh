#!/bin/bash
# tools/seedverify6.sh <tag> : round 6 - tag = property id + focus suffix (C12farm, C07b ...); stores seeded/<Cxx>-<m><suffix>
tag="$1"; prop="${tag:0:3}"; suf="${tag:3}"
for m in m11 m12 b4; do
  [ -f /tmp/seedout6/$tag/$m/patch.diff ] || { echo "$tag $m: no patch"; continue; }
  mkdir -p /tmp/seedout6n/$prop/$m$suf
  cp /tmp/seedout6/$tag/$m/* /tmp/seedout6n/$prop/$m$suf/
  SEEDOUT=/tmp/seedout6n /verif/tools/seedverify2.sh $prop $m$suf 2>&1 | tail -1
done
git -C /repo worktree remove --force /tmp/seed6/$tag 2>/dev/null
