#!/usr/bin/env python3
# prints the markdown table of §0.7 of DESIGN.md from evidence/<id>.selftest.json
import json, glob, os, re
rows=[]
tot={'caught':0,'missed':0,'quiet':0,'false-alarm':0,'not-applicable':0}
for f in sorted(glob.glob('/verif/evidence/C*.selftest.json')):
    d=json.load(open(f))
    for e in d['entries']:
        tot[e['outcome']]=tot.get(e['outcome'],0)+1
        det=e['detail']
        if e['outcome'] in('caught','false-alarm'):
            obs=[re.sub(r'^[a-z]+:','',o.strip()) for o in det.split(',')]
            det='; '.join(obs[:3])+(' …' if len(obs)>3 else '')
            det='`'+det+'`'
        elif e['outcome']=='quiet':
            det='check stays green'
        else:
            det=det[:90]
        kind='behaviour-preserving edit' if e.get('benign') else ('fix reverted' if e.get('reverse') else 'seeded mutation')
        rows.append((d['property'], e['name'].replace(' (fix reverted)',''), kind, e['outcome'], det))
print('| property | change | kind | outcome | obligations that fail |')
print('|---|---|---|---|---|')
for r in rows: print('| '+' | '.join(r)+' |')
print()
print(tot)
