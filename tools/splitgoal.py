#!/usr/bin/env python3
# debugging aid: for an SMT file produced by govc, report which top-level conjunct of the goal is not provable
import sys,subprocess,re
f=sys.argv[1]
s=open(f).read()
i=s.rindex('(assert (not ')
j=s.index('(check-sat)',i)
goal=s[i+len('(assert (not '):j].rstrip()[:-2].strip() if False else s[i+len('(assert (not '):j].rstrip()
goal=goal[:-1].rstrip()  # drop closing paren of assert... keep (not X) content
# goal is "X)" where X is the formula ; strip final ')'
goal=goal[:-1] if goal.endswith(')') and goal.count('(')<goal.count(')') else goal
def split_and(g):
    g=g.strip()
    m=re.match(r'\(=> (\S+|\(.*?\)) \(and ',g)
    pre=''
    if g.startswith('(=> '):
        # find antecedent
        depth=0;k=4
        if g[k]=='(':
            while True:
                if g[k]=='(':depth+=1
                if g[k]==')':
                    depth-=1
                    if depth==0:break
                k+=1
            k+=1
        else:
            while g[k]!=' ':k+=1
        pre=g[4:k]
        rest=g[k:].strip()[:-1].strip()
    else:
        rest=g
    if not rest.startswith('(and '):
        return pre,[rest]
    body=rest[5:-1]
    parts=[];depth=0;cur=''
    for ch in body:
        if ch=='(':depth+=1
        if ch==')':depth-=1
        cur+=ch
        if depth==0 and (ch==')' or ch==' '):
            if cur.strip():parts.append(cur.strip())
            cur=''
    if cur.strip():parts.append(cur.strip())
    return pre,parts
pre,parts=split_and(goal)
print('antecedent:',pre[:200]);print(len(parts),'conjuncts')
for k,p in enumerate(parts):
    g=p if not pre else '(=> %s %s)'%(pre,p)
    t=s[:i]+'(assert (not %s))\n(check-sat)\n'%g
    open('/tmp/_part.smt2','w').write(t)
    r=subprocess.run(['z3-new','-T:10','/tmp/_part.smt2'],capture_output=True,text=True).stdout.split('\n')[0]
    print(k,r,p[:300])
