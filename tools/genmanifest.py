#!/usr/bin/env python3
# Regenerates MANIFEST.json from tools/claims.json (hand-maintained) and properties.jsonl.
import json, subprocess
props=[json.loads(l)['id'] for l in open('/verif/properties.jsonl')]
claims=json.load(open('/verif/tools/claims.json'))
hooks=subprocess.run(['git','-C','/repo','log','--format=%H %s'],capture_output=True,text=True).stdout.strip().split('\n')
hook_commits=[l.split()[0] for l in hooks if l.split(' ',1)[1].startswith('verif:')]
m={"version":1,
 "setup_cmd":"cd /verif/engine && GOFLAGS=-mod=vendor GOPROXY=off GOSUMDB=off GOTOOLCHAIN=local go build -o /verif/bin/govc .",
 "hooks":{"guard":"verif","enable":"go/packages load with -tags verif (contracts are comment-only files zz_verif_contracts.go behind //go:build verif; the only executable addition is the hook function verifGenesisRoundTrip in modules/coinswap/keeper/zz_verif_hooks.go, compiled only with the tag and never called)",
  "baseline_off_cmd":"for m in $(cat /w/out/gomods.txt); do (cd /repo/$m && GOFLAGS=-mod=mod go test -json -vet=off -count=1 -timeout 25m ./...); done",
  "source_commits":hook_commits,"add_only":True},
 "engines":[{"name":"govc","path":"/verif/engine","serves_properties":sorted(claims['checks'].keys()),
   "kind_free_text":"contract-based deductive verifier for Go written for this task: go/ssa symbolic execution of the real functions against //@ contracts, VCs in SMT-LIB discharged by z3 4.8.12 / z3 5.1.0 / cvc5 1.0 (raced)"}],
 "checks":[],"not_applicable":[],"notes":claims.get('notes','')}
for pid in props:
    if pid in claims['checks']:
        c=claims['checks'][pid]
        m['checks'].append({"property_id":pid,"quick_cmd":"./check %s quick"%pid,"thorough_cmd":"./check %s thorough"%pid,
          "evidence_file":"/verif/evidence/%s.json"%pid,"replay_cmd_template":"./check %s --replay {path}"%pid,"engine":"govc",
          "level_claimed":{"category":c.get('category','proof'),"text":c['text'],"design_ref":c.get('design_ref','DESIGN.md section 7')},
          "level_note":c['note'],"technique":c.get('technique',"contract-based deductive verification: weakest-precondition style VCs generated from go/ssa of the real functions, discharged by SMT (z3/cvc5)")})
    else:
        m['not_applicable'].append({"property_id":pid,"reason":claims['not_applicable'].get(pid,"machinery not built yet for this property (see DESIGN.md staging); not claimed")})
json.dump(m,open('/verif/MANIFEST.json','w'),indent=1)
print(len(m['checks']),'checks,',len(m['not_applicable']),'not applicable')
