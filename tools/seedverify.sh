#!/bin/bash
# tools/seedverify.sh <Cxx> <mN> : confirm a seeded change from /tmp/seedout/<Cxx>/<mN> in a scratch worktree of /repo HEAD,
# then store it under /verif/seeded/<Cxx>-<mN>/ with verify.json. The worktree is removed afterwards.
set -u
id="$1"; m="$2"
src="/tmp/seedout/$id/$m"
out="/verif/seeded/$id-$m"
wt="/tmp/sv/$id-$m"
export GOFLAGS=-mod=mod GOPROXY=off GOSUMDB=off GOTOOLCHAIN=local
mkdir -p /tmp/sv "$out"
git -C /repo worktree remove --force "$wt" 2>/dev/null
git -C /repo worktree add -q --detach "$wt" HEAD || exit 2
cleanup() { git -C /repo worktree remove --force "$wt" 2>/dev/null; }
trap cleanup EXIT
demo_dir=$(python3 -c "import json;print(json.load(open('$src/meta.json'))['demo_dir'])")
demo_run=$(python3 -c "import json;print(json.load(open('$src/meta.json'))['demo_run'])")
module=$(echo "$demo_dir" | sed -E 's|^(modules/[^/]+).*|\1|')
cd "$wt"
cp "$src/demo_test.go" "$demo_dir/zz_seed_demo_test.go"
base_log=$(bash -c "$demo_run" 2>&1); base_rc=$?
rm "$demo_dir/zz_seed_demo_test.go"
applies=true
git apply "$src/patch.diff" 2>/tmp/sv/$id-$m.apply.err || applies=false
build_rc=1; tests_rc=1; demo_rc=0; tests_log=""; demo_log=""
if $applies; then
  (cd "$module" && go build ./... ) >/tmp/sv/$id-$m.build.log 2>&1; build_rc=$?
  tests_log=$(cd "$module" && go test -vet=off -count=1 ./... 2>&1); tests_rc=$?
  cp "$src/demo_test.go" "$demo_dir/zz_seed_demo_test.go"
  demo_log=$(bash -c "$demo_run" 2>&1); demo_rc=$?
fi
python3 - "$out" "$id" "$m" "$applies" "$base_rc" "$build_rc" "$tests_rc" "$demo_rc" "$(git -C /repo rev-parse --short HEAD)" <<PY
import json,sys
out,id,m,applies,base,build,tests,demo,head=sys.argv[1:10]
ok = applies=='true' and base=='0' and build=='0' and tests=='0' and demo!='0'
json.dump({"property":id,"mutation":m,"repo_head":head,"patch_applies":applies=='true',"demo_passes_without_patch":base=='0',"compiles_with_patch":build=='0',"existing_tests_pass_with_patch":tests=='0',"demo_fails_with_patch":demo!='0',"confirmed":ok,
 "ran":["demo on clean worktree","git apply patch.diff","go build ./... in module","go test -vet=off -count=1 ./... in module","demo with patch"]},open(out+'/verify.json','w'),indent=1)
print(id,m,"confirmed" if ok else "NOT CONFIRMED",dict(applies=applies,base=base,build=build,tests=tests,demo=demo))
PY
cp "$src/patch.diff" "$src/demo_test.go" "$src/meta.json" "$out/"
