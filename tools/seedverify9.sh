#!/bin/bash
# tools/seedverify9.sh <Cxx>: round 9 (m15, m16) from /tmp/seedout9
p="$1"
for m in m15 m16; do
  [ -f /tmp/seedout9/$p/$m/patch.diff ] || { echo "$p $m: no patch"; continue; }
  SEEDOUT=/tmp/seedout9 /verif/tools/seedverify2.sh $p $m 2>&1 | tail -1
done
git -C /repo worktree remove --force /tmp/seed9/$p 2>/dev/null
