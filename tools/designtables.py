#!/usr/bin/env python3
# Rewrites the generated tables of DESIGN.md section 0 (between <!-- TABLE:x --> markers) from the evidence files.
import json, glob, re, subprocess
D='/verif/DESIGN.md'
s=open(D).read()
desc=json.load(open('/verif/tools/design_status.json'))
rows=['| id | level | functions under contract | obligations | quick | what is decided | what is not |','|---|---|---|---|---|---|---|']
for f in sorted(glob.glob('/verif/evidence/C??.json')):
    d=json.load(open(f)); c=d['coverage']; pid=d['property_id']
    fu=c.get('functions_under_contract') or []
    mods=sorted({x.split(':')[0].replace('modules/','') for x in fu})
    kn=c.get('known_findings',0)
    ob=str(c.get('obligations'))+(' (+%d known)'%kn if kn else '')
    dd=desc.get(pid,{})
    rows.append('| %s | %s | %s | %s | %d s | %s | %s |'%(pid, dd.get('level',d['level']), ('%d (%s)'%(len(fu),', '.join(mods))) if fu else dd.get('funcs','-'), ob, round(d['wall_s']), dd.get('decided',''), dd.get('not','')))
rows.append('| C20 | not applicable | - | - | - | - | see §8 |')
s=re.sub(r'<!-- TABLE:status -->.*?<!-- /TABLE:status -->','<!-- TABLE:status -->\n'+'\n'.join(rows)+'\n<!-- /TABLE:status -->',s,flags=re.S)
t=subprocess.run(['python3','/verif/tools/seedtable.py'],capture_output=True,text=True).stdout
s=re.sub(r'<!-- TABLE:seeds -->.*?<!-- /TABLE:seeds -->','<!-- TABLE:seeds -->\n'+t.strip()+'\n<!-- /TABLE:seeds -->',s,flags=re.S)
open(D,'w').write(s)
print('tables written')
