package main

import (
	"fmt"
	"sort"
	"strings"
)

// Quantifier-free handling of pointwise coin-array operations.
//
//  - goal-side extensionality: array (and struct-with-array) equalities occurring positively in the goal
//    are replaced by equality at fresh skolem indices;
//  - pointwise definitions R = A (+|-) B, allGE(A,B), coins predicates: instantiated at every Str-sorted
//    term occurring in the VC (the index set of the array property fragment).

var skolemCounter int

func containsArray(s *Sort, depth int) bool {
	if depth > 6 {
		return false
	}
	switch s.Kind {
	case KArray:
		return true
	case KData:
		for _, f := range s.Fields {
			if containsArray(f.Sort, depth+1) {
				return true
			}
		}
	}
	return false
}

func expandEq(a, b *Term) *Term {
	switch a.Sort.Kind {
	case KArray:
		skolemCounter++
		k := Sym(fmt.Sprintf("sk!%d", skolemCounter), a.Sort.Key)
		return expandEq(Select(a, k), Select(b, k))
	case KData:
		if !containsArray(a.Sort, 0) {
			return Eq(a, b)
		}
		var cs []*Term
		for i := range a.Sort.Fields {
			cs = append(cs, expandEq(SelField(a, i), SelField(b, i)))
		}
		return And(cs...)
	}
	return Eq(a, b)
}

// skolemizeGoal rewrites positively occurring array equalities.
func skolemizeGoal(t *Term, pos bool) *Term {
	if t.Sort != SBool || t.kind != tApp {
		return t
	}
	switch t.Op {
	case "and", "or":
		args := make([]*Term, len(t.Args))
		ch := false
		for i, a := range t.Args {
			args[i] = skolemizeGoal(a, pos)
			if args[i] != a {
				ch = true
			}
		}
		if !ch {
			return t
		}
		if t.Op == "and" {
			return And(args...)
		}
		return Or(args...)
	case "not":
		n := skolemizeGoal(t.Args[0], !pos)
		if n == t.Args[0] {
			return t
		}
		return Not(n)
	case "=>":
		a := skolemizeGoal(t.Args[0], !pos)
		b := skolemizeGoal(t.Args[1], pos)
		if a == t.Args[0] && b == t.Args[1] {
			return t
		}
		return Implies(a, b)
	case "ite":
		if t.Args[1].Sort == SBool {
			a := skolemizeGoal(t.Args[1], pos)
			b := skolemizeGoal(t.Args[2], pos)
			if a == t.Args[1] && b == t.Args[2] {
				return t
			}
			return Ite(t.Args[0], a, b)
		}
	case "=":
		if pos && containsArray(t.Args[0].Sort, 0) {
			return expandEq(t.Args[0], t.Args[1])
		}
	}
	return t
}

// skolemizeQuant replaces positively occurring universal quantifiers in a goal by fresh constants.
func skolemizeQuant(t *Term, pos bool) *Term {
	if t.Sort != SBool {
		return t
	}
	if t.kind == tQuant {
		if pos {
			skolemCounter++
			k := Sym(fmt.Sprintf("sk!q%d", skolemCounter), t.Args[1].Sort)
			return skolemizeQuant(substitute(t.Args[0], t.Args[1], k, map[*Term]*Term{}), pos)
		}
		return t
	}
	if t.kind != tApp {
		return t
	}
	switch t.Op {
	case "and", "or":
		args := make([]*Term, len(t.Args))
		for i, a := range t.Args {
			args[i] = skolemizeQuant(a, pos)
		}
		if t.Op == "and" {
			return And(args...)
		}
		return Or(args...)
	case "not":
		return Not(skolemizeQuant(t.Args[0], !pos))
	case "=>":
		return Implies(skolemizeQuant(t.Args[0], !pos), skolemizeQuant(t.Args[1], pos))
	case "ite":
		// the condition occurs in both polarities: only quantifier-free conditions are looked through
		if t.Args[1].Sort == SBool && !hasQuant(t.Args[0], map[*Term]bool{}) {
			return Ite(t.Args[0], skolemizeQuant(t.Args[1], pos), skolemizeQuant(t.Args[2], pos))
		}
	}
	return t
}

// withBound marks the terms (in post-order list `all`) that mention a quantifier-bound symbol.
func withBound(all []*Term) map[*Term]bool {
	bound := map[string]bool{}
	for _, t := range all {
		if t.kind == tQuant {
			bound[t.Name] = true
		}
	}
	has := map[*Term]bool{}
	if len(bound) == 0 {
		return has
	}
	for _, t := range all {
		if t.kind == tSym && bound[t.Name] {
			has[t] = true
			continue
		}
		for _, a := range t.Args {
			if has[a] {
				has[t] = true
				break
			}
		}
	}
	return has
}

func collectAll(roots []*Term) []*Term {
	seen := map[*Term]int{}
	var order []*Term
	for _, r := range roots {
		if r != nil {
			collect(r, seen, &order)
		}
	}
	return order
}

// buildScript turns an obligation into an SMT script with instantiated pointwise facts and distinctness
// of string/error constants.
func (p *Program) buildScript(o *Obligation) *Script {
	sc := &Script{}
	assumes := append([]*Term(nil), o.Assumes...)
	goal := o.Goal
	if goal != nil {
		goal = skolemizeQuant(goal, true)
		goal = skolemizeGoal(goal, true)
	}
	// relevant definitions, to fixpoint
	usedPW := map[*pointwiseDef]bool{}
	usedGE := map[*allGEDef]bool{}
	usedCP := map[*coinsPredDef]bool{}
	pwByR := map[string]*pointwiseDef{}
	for _, d := range p.pointwiseDefs {
		pwByR[d.R.Name] = d
	}
	geByP := map[string]*allGEDef{}
	for _, d := range p.allGEDefs {
		geByP[d.P.Name] = d
	}
	cpByP := map[string]*coinsPredDef{}
	for _, d := range p.coinsPredDefs {
		cpByP[d.P.Name] = d
	}
	extra := []*Term{}
	for iter := 0; iter < 6; iter++ {
		roots := append(append([]*Term{}, assumes...), extra...)
		if goal != nil {
			roots = append(roots, goal)
		}
		all := collectAll(roots)
		hb := withBound(all)
		changed := false
		strTerms := map[string]*Term{}
		for _, t := range all {
			if hb[t] {
				continue
			}
			if t.kind == tSym {
				if d, ok := pwByR[t.Name]; ok && !usedPW[d] {
					usedPW[d] = true
					changed = true
				}
				if d, ok := geByP[t.Name]; ok && !usedGE[d] {
					usedGE[d] = true
					changed = true
				}
				if d, ok := cpByP[t.Name]; ok && !usedCP[d] {
					usedCP[d] = true
					changed = true
				}
			}
			if t.Sort == SStr {
				strTerms[t.String()] = t
			}
		}
		// make sure definitions' operands are part of the term universe
		var defRoots []*Term
		for d := range usedPW {
			defRoots = append(defRoots, d.A, d.B)
		}
		for d := range usedGE {
			defRoots = append(defRoots, d.A, d.B)
		}
		for d := range usedCP {
			defRoots = append(defRoots, d.A)
		}
		defAll := collectAll(defRoots)
		dhb := withBound(defAll)
		for _, t := range defAll {
			if dhb[t] {
				continue
			}
			if t.Sort == SStr {
				strTerms[t.String()] = t
			}
			if t.kind == tSym {
				if d, ok := pwByR[t.Name]; ok && !usedPW[d] {
					usedPW[d] = true
					changed = true
				}
			}
		}
		if len(usedPW)+len(usedGE)+len(usedCP) == 0 {
			break
		}
		keys := make([]string, 0, len(strTerms))
		for k := range strTerms {
			keys = append(keys, k)
		}
		sort.Strings(keys)
		if len(keys) == 0 {
			keys = append(keys, "w")
			strTerms["w"] = Sym("sk!denom", SStr)
		}
		extra = extra[:0]
		for d := range usedPW {
			for _, k := range keys {
				i := strTerms[k]
				extra = append(extra, Eq(Select(d.R, i), d.Op(Select(d.A, i), Select(d.B, i))))
			}
		}
		for d := range usedGE {
			for _, k := range keys {
				i := strTerms[k]
				extra = append(extra, Implies(d.P, Ge(Select(d.A, i), Select(d.B, i))))
			}
		}
		for d := range usedCP {
			for _, k := range keys {
				i := strTerms[k]
				extra = append(extra, Implies(d.P, d.Each(Select(d.A, i))))
			}
		}
		if !changed && iter > 0 {
			break
		}
	}
	assumes = append(assumes, extra...)
	// distinctness of named constants
	roots := append([]*Term{}, assumes...)
	if goal != nil {
		roots = append(roots, goal)
	}
	consts := map[*Sort]map[string]*Term{}
	for _, t := range collectAll(roots) {
		if t.kind == tSym && (strings.HasPrefix(t.Name, "str:") || strings.HasPrefix(t.Name, "err:") || strings.HasPrefix(t.Name, "bytes:") || strings.HasPrefix(t.Name, "ref:")) {
			if consts[t.Sort] == nil {
				consts[t.Sort] = map[string]*Term{}
			}
			consts[t.Sort][t.Name] = t
		}
	}
	for _, m := range consts {
		if len(m) < 2 {
			continue
		}
		var ts []*Term
		for _, k := range sortedKeys(m) {
			ts = append(ts, m[k])
		}
		assumes = append(assumes, App("distinct", SBool, ts...))
	}
	// A-HASH: module account addresses are hashes of the module names; different names give different addresses
	var maddrs []*Term
	for _, t := range collectAll(roots) {
		if t.kind == tUF && t.Op == "module_addr" && len(t.Args) == 1 {
			maddrs = append(maddrs, t)
		}
	}
	for i := 0; i < len(maddrs); i++ {
		for j := i + 1; j < len(maddrs); j++ {
			assumes = append(assumes, Implies(Neq(maddrs[i].Args[0], maddrs[j].Args[0]), Neq(maddrs[i], maddrs[j])))
		}
	}
	sc.Assumes = assumes
	sc.Goal = goal
	if o.ExpectSat {
		sc.Goal = nil
	}
	for _, k := range sortedKeys(o.Inputs) {
		sc.Values = append(sc.Values, flattenValues(o.Inputs[k], 0)...)
	}
	if _, ok := ufDecls["str_len"]; ok {
		var extra []*Term
		for _, v := range sc.Values {
			if v.Sort == SStr {
				extra = append(extra, UF("str_len", SInt, v))
			}
		}
		sc.Values = append(sc.Values, extra...)
	}
	if _, ok := ufDecls["denom_valid"]; ok {
		var extra []*Term
		for _, v := range sc.Values {
			if v.Sort == SStr {
				extra = append(extra, UF("denom_valid", SBool, v))
			}
		}
		sc.Values = append(sc.Values, extra...)
	}
	return sc
}

// flattenValues lists scalar projections of an input term so that models are readable.
func flattenValues(t *Term, depth int) []*Term {
	switch t.Sort.Kind {
	case KInt, KBool, KReal, KUninterp:
		return []*Term{t}
	case KData:
		if depth > 3 {
			return nil
		}
		var out []*Term
		for i := range t.Sort.Fields {
			out = append(out, flattenValues(SelField(t, i), depth+1)...)
		}
		return out
	}
	return nil
}
