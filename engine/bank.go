package main

// A-BANK: assumed contract of the x/bank keeper, as executable semantics over the world components
// bal (Array Bytes (Array Str Int)), supply (Array Str Int), blocked (Array Bytes Bool).

type coinEntry struct{ D, A *Term }

// subCoins returns (newBalanceOfAddr, sufficient)
func (x *Exec) subCoins(st *State, have *Term, amt *Term) (*Term, *Term) {
	if es, ok := x.prog.explicitCoins[amt]; ok {
		cur := have
		suff := True
		for _, e := range es {
			nv := Sub(Select(cur, e.D), e.A)
			suff = And(suff, Ge(nv, IntLit(0)))
			cur = Store(cur, e.D, nv)
		}
		return cur, suff
	}
	r := x.pointwise(st, "bal_sub", have, amt, func(p, q *Term) *Term { return Sub(p, q) })
	return r, x.allGE(st, have, amt)
}

func (x *Exec) addCoins(st *State, have *Term, amt *Term) *Term {
	if es, ok := x.prog.explicitCoins[amt]; ok {
		cur := have
		for _, e := range es {
			cur = Store(cur, e.D, Add(Select(cur, e.D), e.A))
		}
		return cur
	}
	return x.pointwise(st, "bal_add", have, amt, func(p, q *Term) *Term { return Add(p, q) })
}

func (x *Exec) bankSend(st *State, from, to, amt *Term, extraFail *Term, pos string) Val {
	bal := st.world.get("bal")
	nf, suff := x.subCoins(st, Select(bal, from), amt)
	ok := suff
	if extraFail != nil {
		ok = And(ok, Not(extraFail))
	}
	b1 := Store(bal, from, nf)
	b2 := Store(b1, to, x.addCoins(st, Select(b1, to), amt))
	e := x.freshTerm("senderr", SErr)
	st.assume(Eq(Eq(e, ErrNil), ok))
	st.world = st.world.clone()
	st.world.set("bal", Ite(ok, b2, bal))
	return e
}

func init() {
	bk := func(name string, fn TheoryFn) {
		theory["BankKeeper."+name] = fn
		theory["Keeper."+name] = fn // x/bank keeper.Keeper interface when referenced directly
		theory["BaseKeeper."+name] = fn
	}
	bk("SendCoins", func(x *Exec, f *Frame, st *State, c *CallInfo) Val {
		return x.bankSend(st, c.T(2), c.T(3), c.T(4), nil, c.Pos)
	})
	bk("SendCoinsFromModuleToAccount", func(x *Exec, f *Frame, st *State, c *CallInfo) Val {
		to := c.T(3)
		return x.bankSend(st, moduleAddr(c.T(2)), to, c.T(4), Select(st.world.get("blocked"), to), c.Pos)
	})
	bk("SendCoinsFromAccountToModule", func(x *Exec, f *Frame, st *State, c *CallInfo) Val {
		return x.bankSend(st, c.T(2), moduleAddr(c.T(3)), c.T(4), nil, c.Pos)
	})
	bk("SendCoinsFromModuleToModule", func(x *Exec, f *Frame, st *State, c *CallInfo) Val {
		return x.bankSend(st, moduleAddr(c.T(2)), moduleAddr(c.T(3)), c.T(4), nil, c.Pos)
	})
	bk("MintCoins", func(x *Exec, f *Frame, st *State, c *CallInfo) Val {
		m := moduleAddr(c.T(2))
		amt := c.T(3)
		bal := st.world.get("bal")
		st.world = st.world.clone()
		st.world.set("bal", Store(bal, m, x.addCoins(st, Select(bal, m), amt)))
		st.world.set("supply", x.addCoins(st, st.world.get("supply"), amt))
		return ErrNil
	})
	bk("BurnCoins", func(x *Exec, f *Frame, st *State, c *CallInfo) Val {
		m := moduleAddr(c.T(2))
		amt := c.T(3)
		bal := st.world.get("bal")
		nf, suff := x.subCoins(st, Select(bal, m), amt)
		ns, _ := x.subCoins(st, st.world.get("supply"), amt)
		e := x.freshTerm("burnerr", SErr)
		st.assume(Eq(Eq(e, ErrNil), suff))
		st.world = st.world.clone()
		st.world.set("bal", Ite(suff, Store(bal, m, nf), bal))
		st.world.set("supply", Ite(suff, ns, st.world.get("supply")))
		return e
	})
	bk("GetBalance", func(x *Exec, f *Frame, st *State, c *CallInfo) Val {
		a := Select(Select(st.world.get("bal"), c.T(2)), c.T(3))
		st.assume(Ge(a, IntLit(0)))
		return Con(SCoin, c.T(3), a)
	})
	bk("GetAllBalances", func(x *Exec, f *Frame, st *State, c *CallInfo) Val {
		return Select(st.world.get("bal"), c.T(2))
	})
	// A-BANK: balances are never negative (stated where a caller relies on it: farm's capped reward payout)
	bk("SpendableCoins", func(x *Exec, f *Frame, st *State, c *CallInfo) Val {
		r := Select(st.world.get("bal"), c.T(2))
		st.assume(x.coinsPred(st, "coins_nonneg", r, func(a *Term) *Term { return Ge(a, IntLit(0)) }, true))
		return r
	})
	bk("GetSupply", func(x *Exec, f *Frame, st *State, c *CallInfo) Val {
		a := Select(st.world.get("supply"), c.T(2))
		st.assume(Ge(a, IntLit(0)))
		return Con(SCoin, c.T(2), a)
	})
	bk("HasSupply", func(x *Exec, f *Frame, st *State, c *CallInfo) Val {
		return Gt(Select(st.world.get("supply"), c.T(2)), IntLit(0))
	})
	bk("BlockedAddr", func(x *Exec, f *Frame, st *State, c *CallInfo) Val {
		return Select(st.world.get("blocked"), c.T(1))
	})
	bk("SetDenomMetaData", func(x *Exec, f *Frame, st *State, c *CallInfo) Val { return nil })
	bk("GetDenomMetaData", func(x *Exec, f *Frame, st *State, c *CallInfo) Val {
		return x.freshVal(st, c.ResTyp, "meta")
	})
	theory["AccountKeeper.GetModuleAddress"] = func(x *Exec, f *Frame, st *State, c *CallInfo) Val {
		a := moduleAddr(c.T(1))
		st.assume(And(Neq(a, BytesNil), Not(bytesEmpty(a))))
		return a
	}
}

// A-DISTR: the distribution keeper's fee-pool accessors read and write the distribution module's own record; they do
// not move coins (results unconstrained).
func init() {
	for _, m := range []string{"GetFeePool", "SetFeePool"} {
		m := m
		theory["DistrKeeper."+m] = func(x *Exec, f *Frame, st *State, c *CallInfo) Val {
			if c.ResTyp == nil {
				return nil
			}
			top := f.top()
			n := top.callCount["foreign:"+m] + 1
			top.callCount["foreign:"+m] = n
			return x.foreignResult(st, c.ResTyp, m, n)
		}
	}
}

// EVM keeper: key-type check and chain id are pure queries (no ledger effect); message application stays under the
// foreign-keeper rule.
func init() {
	theory["EVMKeeper.SupportedKey"] = func(x *Exec, f *Frame, st *State, c *CallInfo) Val {
		return x.freshTerm("supported_key", SBool)
	}
	theory["EVMKeeper.ChainID"] = func(x *Exec, f *Frame, st *State, c *CallInfo) Val {
		return x.freshTerm("evm_chain_id", SInt)
	}
}
