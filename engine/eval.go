package main

import (
	"fmt"
	"go/constant"
	"go/types"
	"math/big"
	"strings"

	"golang.org/x/tools/go/ssa"
)

// Env: evaluation environment of a spec expression.
type Env struct {
	x      *Exec
	vars   map[string]Val
	cur    *World
	old    *World
	st     *State
	mem    map[*Obj]Val // current memory (st.mem unless overridden)
	oldMem map[*Obj]Val
	pkg    *ssa.Package
	inOld  bool
	side   []*Term // side facts generated during evaluation (range facts of UFs)
	// adaptation search: an integer VARIABLE standing where a real is expected is a sort error (only literals are promoted)
	noPromote bool
}

type nilSpec struct{}

type errNilDeref struct{ msg string }

func (e errNilDeref) Error() string { return e.msg }

func (e *Env) world() *World {
	if e.inOld {
		return e.old
	}
	return e.cur
}

func (e *Env) memory() map[*Obj]Val {
	if e.inOld && e.oldMem != nil {
		return e.oldMem
	}
	if e.mem != nil {
		return e.mem
	}
	return e.st.mem
}

func (x *Exec) evalBool(env *Env, e *Expr) (*Term, error) {
	v, err := x.eval(env, e)
	if err != nil {
		return nil, err
	}
	t, ok := v.(*Term)
	if !ok || t.Sort != SBool {
		return nil, fmt.Errorf("expression %s is not boolean", e)
	}
	return t, nil
}

func (x *Exec) evalTerm(env *Env, e *Expr) (*Term, error) {
	v, err := x.eval(env, e)
	if err != nil {
		return nil, err
	}
	v = x.autoDeref(env, v)
	t, ok := v.(*Term)
	if !ok {
		return nil, fmt.Errorf("expression %s is not a term (%T)", e, v)
	}
	return t, nil
}

func (x *Exec) autoDeref(env *Env, v Val) Val {
	if pv, ok := v.(*PtrVal); ok {
		cur, ok := env.memory()[pv.Obj]
		if !ok {
			cur, ok = env.st.mem[pv.Obj]
			if !ok {
				return v
			}
		}
		return x.readPath(cur, pv.Path, pv.Obj.typ)
	}
	if iv, ok := v.(*IfaceVal); ok {
		return x.autoDeref(env, iv.Dyn)
	}
	if mr, ok := v.(*MapRef); ok {
		// a Go map: its current content
		if cur, ok := env.memory()[mr.Obj]; ok {
			return cur
		}
		if cur, ok := env.st.mem[mr.Obj]; ok {
			return cur
		}
	}
	return v
}

func (x *Exec) eval(env *Env, e *Expr) (res Val, err error) {
	defer func() {
		if r := recover(); r != nil {
			err = fmt.Errorf("evaluating %s: %v", e, r)
		}
	}()
	return x.eval1(env, e)
}

func (x *Exec) eval1(env *Env, e *Expr) (Val, error) {
	switch e.Kind {
	case "num":
		return BigLit(e.Num), nil
	case "str":
		return StrConst(e.Str), nil
	case "bool":
		return BoolLit(e.Name == "true"), nil
	case "id":
		return x.evalIdent(env, e.Name)
	case "old":
		save := env.inOld
		env.inOld = true
		v, err := x.eval1(env, e.Args[0])
		if err == nil {
			v = x.autoDeref(env, v)
		}
		env.inOld = save
		return v, err
	case "forall":
		var srt *Sort
		switch e.Str {
		case "Int":
			srt = SInt
		case "Bool":
			srt = SBool
		case "Str":
			srt = SStr
		case "Bytes", "Addr":
			srt = SBytes
		case "Real":
			srt = SReal
		default:
			if ds, ok := dataSorts[e.Str]; ok {
				srt = ds
			} else {
				return nil, fmt.Errorf("forall: unknown sort %s", e.Str)
			}
		}
		bv := NewBound(e.Name, srt)
		saved, had := env.vars[e.Name]
		env.vars[e.Name] = bv
		body, err := x.evalBool(env, e.Args[0])
		var pats []*Term
		if err == nil {
			for _, te := range e.Args[1:] {
				var pt *Term
				pt, err = x.evalTerm(env, te)
				if err != nil {
					break
				}
				pats = append(pats, pt)
			}
		}
		if had {
			env.vars[e.Name] = saved
		} else {
			delete(env.vars, e.Name)
		}
		if err != nil {
			return nil, err
		}
		return Forall(bv, body, pats...), nil
	case "unop":
		a, err := x.evalTerm(env, e.Args[0])
		if err != nil {
			return nil, err
		}
		if e.Name == "!" {
			return Not(a), nil
		}
		return Neg(a), nil
	case "binop":
		return x.evalBinop(env, e)
	case "field":
		// package-qualified identifiers
		if b := e.Args[0]; b.Kind == "id" {
			if _, isVar := env.vars[b.Name]; !isVar {
				if v, ok := x.pkgIdent(env, b.Name, e.Name); ok {
					return v, nil
				}
				if d := x.prog.defines[e.Name]; d != nil && len(d.Params) == 0 {
					if _, isWorld := env.world().comps[b.Name]; !isWorld {
						return x.eval1(env, d.Body)
					}
				}
			}
		}
		base, err := x.eval1(env, e.Args[0])
		if err != nil {
			return nil, err
		}
		base = x.autoDeref(env, base)
		return x.evalField(env, base, e.Name)
	case "index":
		return x.evalIndex(env, e)
	case "call":
		return x.evalCall(env, e)
	}
	return nil, fmt.Errorf("cannot evaluate %s", e)
}

func (x *Exec) evalIdent(env *Env, name string) (Val, error) {
	if v, ok := env.vars[name]; ok {
		return x.autoDeref(env, v), nil
	}
	switch name {
	case "nil":
		return nilSpec{}, nil
	case "DEC_ONE":
		return BigLit(decOne), nil
	case "MAXU64":
		return BigLit(new(big.Int).Sub(two64, big.NewInt(1))), nil
	case "txbytes":
		return Sym("w0_txbytes", SBytes), nil
	case "MAXI64":
		return BigLit(new(big.Int).Sub(two63, big.NewInt(1))), nil
	}
	if t := env.world().get(name); t != nil {
		return t, nil
	}
	if d := x.prog.defines[name]; d != nil && len(d.Params) == 0 {
		return x.eval1(env, d.Body)
	}
	return nil, fmt.Errorf("unknown identifier %q", name)
}

var decOne = new(big.Int).Exp(big.NewInt(10), big.NewInt(18), nil)

func (x *Exec) pkgIdent(env *Env, pkgName, name string) (Val, bool) {
	if env.pkg == nil {
		return nil, false
	}
	var target *types.Package
	if env.pkg.Pkg.Name() == pkgName {
		target = env.pkg.Pkg
	}
	for _, imp := range env.pkg.Pkg.Imports() {
		if imp.Name() == pkgName {
			target = imp
		}
	}
	if target == nil {
		// search all loaded packages by name
		for _, p := range x.prog.ssaPkgs {
			if p.Pkg.Name() == pkgName && p.Pkg.Scope().Lookup(name) != nil {
				target = p.Pkg
				break
			}
		}
	}
	if target == nil {
		return nil, false
	}
	obj := target.Scope().Lookup(name)
	switch o := obj.(type) {
	case *types.Const:
		switch o.Val().Kind() {
		case constant.Int:
			b, _ := new(big.Int).SetString(o.Val().ExactString(), 10)
			return BigLit(b), true
		case constant.String:
			return StrConst(constant.StringVal(o.Val())), true
		case constant.Bool:
			return BoolLit(constant.BoolVal(o.Val())), true
		}
	case *types.Var:
		s := SortOf(o.Type())
		if s == SErr {
			return Sym("err:"+target.Path()+"."+name, SErr), true
		}
		if s != nil {
			if sp := x.prog.ssaPkgByTypes(target); sp != nil {
				if g, ok := sp.Members[name].(*ssa.Global); ok {
					if cv := x.prog.globalConst(g); cv != nil {
						return cv, true
					}
				}
			}
			return Sym("global:"+pkgName+"."+name, s), true
		}
	}
	return nil, false
}

func (x *Exec) evalField(env *Env, base Val, name string) (Val, error) {
	switch b := base.(type) {
	case *Term:
		if isPtrSort(b.Sort) && name != "isnil" && name != "val" {
			b = SelField(b, 1) // optional-pointer field: p.F is the field of the pointee
		}
		if b.Sort.Kind == KData {
			i := b.Sort.FieldIndex(name)
			if i < 0 {
				// case-insensitive convenience
				for j, f := range b.Sort.Fields {
					if strings.EqualFold(f.Name, name) {
						i = j
					}
				}
			}
			if i < 0 {
				return nil, fmt.Errorf("sort %s has no field %s", b.Sort, name)
			}
			return SelField(b, i), nil
		}
		return nil, fmt.Errorf("field %s of non-struct sort %s", name, b.Sort)
	case *GoStruct:
		if st, ok := b.Type.Underlying().(*types.Struct); ok {
			for i := 0; i < st.NumFields(); i++ {
				if st.Field(i).Name() == name {
					return x.autoDeref(env, b.Fields[i]), nil
				}
			}
		}
	case *OpaqueVal:
		if b.Type != nil {
			ut := b.Type.Underlying()
			if p, ok := ut.(*types.Pointer); ok {
				ut = p.Elem().Underlying()
			}
			if st, ok := ut.(*types.Struct); ok {
				for i := 0; i < st.NumFields(); i++ {
					if st.Field(i).Name() == name {
						return x.opaqueField(b, pathElem{field: i}), nil
					}
				}
			}
		}
	}
	switch base.(type) {
	case *NilPtr, nilSpec:
		return nil, errNilDeref{fmt.Sprintf("field %s of nil", name)}
	}
	return nil, fmt.Errorf("cannot select field %s of %T", name, base)
}

func (x *Exec) evalIndex(env *Env, e *Expr) (Val, error) {
	base, err := x.evalTerm(env, e.Args[0])
	if err != nil {
		return nil, err
	}
	var idx []*Term
	for _, a := range e.Args[1:] {
		t, err := x.evalTerm(env, a)
		if err != nil {
			return nil, err
		}
		idx = append(idx, t)
	}
	cur := base
	for len(idx) > 0 {
		switch {
		case isMapSort(cur.Sort):
			ks := cur.Sort.Fields[1].Sort.Key
			if ks.Kind == KData && ks != idx[0].Sort && len(idx) >= len(ks.Fields) {
				k := Con(ks, idx[:len(ks.Fields)]...)
				idx = idx[len(ks.Fields):]
				cur = Select(SelField(cur, 1), k)
			} else {
				cur = Select(SelField(cur, 1), idx[0])
				idx = idx[1:]
			}
		case isSliceSort(cur.Sort):
			cur = Select(SelField(cur, 1), idx[0])
			idx = idx[1:]
		case cur.Sort.Kind == KArray:
			ks := cur.Sort.Key
			if ks.Kind == KData && ks != idx[0].Sort && len(idx) >= len(ks.Fields) {
				cur = Select(cur, Con(ks, idx[:len(ks.Fields)]...))
				idx = idx[len(ks.Fields):]
			} else {
				cur = Select(cur, idx[0])
				idx = idx[1:]
			}
		default:
			return nil, fmt.Errorf("index into sort %s", cur.Sort)
		}
	}
	return cur, nil
}

func (x *Exec) coerceNil(a, b Val) (Val, Val, error) {
	_, an := a.(nilSpec)
	_, bn := b.(nilSpec)
	nilOf := func(o Val) (Val, error) {
		t, ok := o.(*Term)
		if !ok {
			return nil, fmt.Errorf("nil compared with %T", o)
		}
		switch {
		case t.Sort == SErr:
			return ErrNil, nil
		case t.Sort == SBytes:
			return BytesNil, nil
		case t.Sort == SRef:
			return RefNil, nil
		}
		return nil, fmt.Errorf("nil compared with sort %s", t.Sort)
	}
	var err error
	if an && !bn {
		a, err = nilOf(b)
	} else if bn && !an {
		b, err = nilOf(a)
	}
	return a, b, err
}

func (x *Exec) evalBinop(env *Env, e *Expr) (Val, error) {
	op := e.Name
	// short-circuit style ops on booleans
	av, err := x.eval1(env, e.Args[0])
	if err != nil {
		return nil, err
	}
	bv, err := x.eval1(env, e.Args[1])
	if err != nil {
		// a guarded partial expression: "A ==> (something of nil)" can only hold when A is false
		if _, isNil := err.(errNilDeref); isNil && (op == "==>" || op == "&&") {
			if a, ok := x.autoDeref(env, av).(*Term); ok && a.Sort == SBool {
				if op == "==>" {
					return Not(a), nil
				}
				return False, nil
			}
		}
		return nil, err
	}
	av, bv = x.autoDeref(env, av), x.autoDeref(env, bv)
	av, bv, err = x.coerceNil(av, bv)
	if err != nil {
		return nil, fmt.Errorf("%v in %s", err, e)
	}
	a, ok1 := av.(*Term)
	b, ok2 := bv.(*Term)
	if !ok1 || !ok2 {
		// comparing the pointee of a nil pointer with a value: partial, like a field of nil
		_, n1 := av.(*NilPtr)
		_, n2 := bv.(*NilPtr)
		if (n1 && ok2) || (n2 && ok1) {
			return nil, errNilDeref{fmt.Sprintf("comparison with the pointee of nil in %s", e)}
		}
		return nil, fmt.Errorf("operands of %s are not terms (%T, %T) in %s", op, av, bv, e)
	}
	// integer literals compared / combined with reals are promoted
	if a.Sort == SReal && b.Sort == SInt && (!env.noPromote || b.IsLit()) {
		b = App("to_real", SReal, b)
	} else if b.Sort == SReal && a.Sort == SInt && (!env.noPromote || a.IsLit()) {
		a = App("to_real", SReal, a)
	}
	if a.Sort != b.Sort {
		// Int/Real mixing
		return nil, fmt.Errorf("sort mismatch %s vs %s in %s", a.Sort, b.Sort, e)
	}
	switch op {
	case "&&":
		return And(a, b), nil
	case "||":
		return Or(a, b), nil
	case "==>":
		return Implies(a, b), nil
	case "<==>":
		return Eq(a, b), nil
	case "==":
		return Eq(a, b), nil
	case "!=":
		return Neq(a, b), nil
	case "<":
		return Lt(a, b), nil
	case "<=":
		return Le(a, b), nil
	case ">":
		return Gt(a, b), nil
	case ">=":
		return Ge(a, b), nil
	case "+":
		return Add(a, b), nil
	case "-":
		return Sub(a, b), nil
	case "*":
		return Mul(a, b), nil
	case "div":
		return EDiv(a, b), nil
	case "mod", "%":
		return EMod(a, b), nil
	case "/":
		if a.Sort == SReal {
			return App("/", SReal, a, b), nil
		}
		return TDiv(a, b), nil
	}
	return nil, fmt.Errorf("unknown operator %s", op)
}

func pow10Term(k *Term) *Term {
	if k.IsLit() && k.Lit.IsInt64() && k.Lit.Int64() >= 0 && k.Lit.Int64() <= 80 {
		return BigLit(new(big.Int).Exp(big.NewInt(10), k.Lit, nil))
	}
	// ite chain over 0..18, else uninterpreted
	res := UF("pow10", SInt, k)
	for i := 36; i >= 0; i-- {
		res = Ite(Eq(k, IntLit(int64(i))), BigLit(new(big.Int).Exp(big.NewInt(10), big.NewInt(int64(i)), nil)), res)
	}
	return res
}

func (x *Exec) evalCall(env *Env, e *Expr) (Val, error) {
	name := e.Name
	if i := strings.LastIndex(name, "."); i > 0 {
		if d := x.prog.defines[name[i+1:]]; d != nil && len(d.Params) == len(e.Args) {
			name = name[i+1:]
		}
	}
	// user defines (macros)
	if d := x.prog.defines[name]; d != nil && len(d.Params) == len(e.Args) && len(d.Params) > 0 {
		sub := &Env{x: x, vars: map[string]Val{}, cur: env.cur, old: env.old, st: env.st, mem: env.mem, oldMem: env.oldMem, pkg: env.pkg, inOld: env.inOld}
		for k, v := range env.vars {
			sub.vars[k] = v
		}
		for i, p := range d.Params {
			v, err := x.eval1(env, e.Args[i])
			if err != nil {
				return nil, err
			}
			sub.vars[p] = x.autoDeref(env, v)
		}
		return x.eval1(sub, d.Body)
	}
	args := make([]*Term, len(e.Args))
	argT := func(i int) (*Term, error) {
		if i >= len(e.Args) {
			return nil, fmt.Errorf("%s: missing argument %d", name, i)
		}
		if args[i] != nil {
			return args[i], nil
		}
		t, err := x.evalTerm(env, e.Args[i])
		if err != nil {
			return nil, err
		}
		args[i] = t
		return t, nil
	}
	need := func(n int) error {
		if len(e.Args) != n {
			return fmt.Errorf("%s expects %d arguments", name, n)
		}
		for i := 0; i < n; i++ {
			if _, err := argT(i); err != nil {
				return err
			}
		}
		return nil
	}
	w := env.world()
	switch name {
	case "raw":
		if err := need(1); err != nil {
			return nil, err
		}
		return SelField(args[0], 1), nil
	case "isnil":
		if err := need(1); err != nil {
			return nil, err
		}
		if args[0].Sort == SDec {
			return SelField(args[0], 0), nil
		}
		if args[0].Sort == SBytes {
			return Eq(args[0], BytesNil), nil
		}
		return nil, fmt.Errorf("isnil of %s", args[0].Sort)
	case "dec":
		if err := need(1); err != nil {
			return nil, err
		}
		return Con(SDec, False, args[0]), nil
	case "amt":
		if err := need(2); err != nil {
			return nil, err
		}
		return Select(args[0], args[1]), nil
	case "bal":
		if len(e.Args) == 1 {
			if err := need(1); err != nil {
				return nil, err
			}
			return Select(w.get("bal"), args[0]), nil
		}
		if err := need(2); err != nil {
			return nil, err
		}
		return Select(Select(w.get("bal"), args[0]), args[1]), nil
	case "supply":
		if err := need(1); err != nil {
			return nil, err
		}
		return Select(w.get("supply"), args[0]), nil
	case "coin":
		if err := need(2); err != nil {
			return nil, err
		}
		return Con(SCoin, args[0], args[1]), nil
	case "coinat": // coinat(coins, i): the i-th listed coin of a coins value
		if err := need(2); err != nil {
			return nil, err
		}
		d := UF("coins_denom_at", SStr, args[0], args[1])
		return Con(SCoin, d, Select(args[0], d)), nil
	case "nocoins":
		return ZeroOf(SCoins), nil
	case "addcoin": // addcoin(coins, denom, amount)
		if err := need(3); err != nil {
			return nil, err
		}
		return Store(args[0], args[1], Add(Select(args[0], args[1]), args[2])), nil
	case "len":
		// a list whose elements are outside the model (interface values ...) still has a length
		if len(e.Args) == 1 && env.st != nil {
			if v, err := x.eval1(env, e.Args[0]); err == nil {
				switch ov := x.autoDeref(env, v).(type) {
				case *OpaqueVal:
					return x.opaqueLen(env.st, ov), nil
				case *NilPtr:
					if _, isSl := ov.Type.Underlying().(*types.Slice); isSl {
						return IntLit(0), nil
					}
				}
			}
		}
		if err := need(1); err != nil {
			return nil, err
		}
		if isSliceSort(args[0].Sort) {
			return SelField(args[0], 0), nil
		}
		if args[0].Sort == SStr {
			return UF("str_len", SInt, args[0]), nil
		}
		if args[0].Sort == SBytes || args[0].Sort == SCoins {
			name := "bytes_len"
			if args[0].Sort == SCoins {
				name = "coins_len"
			}
			l := UF(name, SInt, args[0])
			// a length is never negative: the fact the executed len() adds, added for closed spec terms too
			if env.st != nil && !mentionsBound(args[0]) {
				env.st.assume(lenRange(l))
			}
			return l, nil
		}
		return nil, fmt.Errorf("len of %s", args[0].Sort)
	case "has", "get", "set", "del":
		f, err := argT(0)
		if err != nil {
			return nil, err
		}
		if !isMapSort(f.Sort) {
			return nil, fmt.Errorf("%s on non-family sort %s", name, f.Sort)
		}
		ks := f.Sort.Fields[1].Sort.Key
		nk := 1
		if ks.Kind == KData && ks != SCoin && ks != SDec && !isSliceSort(ks) {
			nk = len(ks.Fields)
		}
		if ks == SBool { // unit key
			nk = 0
		}
		var karg []*Term
		for i := 1; i <= nk; i++ {
			t, err := argT(i)
			if err != nil {
				return nil, err
			}
			karg = append(karg, t)
		}
		var k *Term
		switch {
		case nk == 0:
			k = True
		case nk == 1 && karg[0].Sort == ks:
			k = karg[0]
		default:
			k = Con(ks, karg...)
		}
		switch name {
		case "has":
			return famHas(f, k), nil
		case "get":
			return famGet(f, k), nil
		case "del":
			return famDel(f, k), nil
		default:
			v, err := argT(nk + 1)
			if err != nil {
				return nil, err
			}
			return famSet(f, k, v), nil
		}
	case "store": // array store
		if err := need(3); err != nil {
			return nil, err
		}
		return Store(args[0], args[1], args[2]), nil
	case "credit", "debit": // credit(bal, addr, denom, amount)
		if err := need(4); err != nil {
			return nil, err
		}
		row := Select(args[0], args[1])
		cur := Select(row, args[2])
		nv := Add(cur, args[3])
		if name == "debit" {
			nv = Sub(cur, args[3])
		}
		return Store(args[0], args[1], Store(row, args[2], nv)), nil
	case "anyaddr": // a free address constant: universally quantified when proving the clause
		if len(e.Args) != 1 || e.Args[0].Kind != "num" {
			return nil, fmt.Errorf("anyaddr(k)")
		}
		return Sym("any_addr_"+e.Args[0].Num.String(), SBytes), nil
	case "anydenom":
		if len(e.Args) != 1 || e.Args[0].Kind != "num" {
			return nil, fmt.Errorf("anydenom(k)")
		}
		return Sym("any_denom_"+e.Args[0].Num.String(), SStr), nil
	case "mrpos": // mrpos(k): position of key k in the enumeration of the current walk over a Go map value
		id, ok := env.vars["$miterid"].(int)
		if !ok {
			return nil, fmt.Errorf("mrpos: no map walk in scope")
		}
		if err := need(1); err != nil {
			return nil, err
		}
		return UF(fmt.Sprintf("mr%d_pos", id), SInt, args[0]), nil
	case "itpos": // itpos(k0, k1, ...): position of a key in the enumeration of the current iterator
		it, ok := env.vars["$iter"].(*IterState)
		id, ok2 := env.vars["$iterid"].(int)
		if !ok || !ok2 {
			return nil, fmt.Errorf("itpos: no iterator in scope")
		}
		var ks []*Term
		for i := range e.Args {
			t, err := argT(i)
			if err != nil {
				return nil, err
			}
			ks = append(ks, t)
		}
		if len(ks) != len(it.Fam.KeySorts) {
			return nil, fmt.Errorf("itpos: expected %d key components", len(it.Fam.KeySorts))
		}
		return UF(fmt.Sprintf("it%d_pos", id), SInt, it.Fam.key(ks)), nil
	case "foreign": // foreign("Method", n, i): i-th result of the n-th call of a foreign keeper method in this unit
		if len(e.Args) != 3 || e.Args[0].Kind != "str" || e.Args[1].Kind != "num" || e.Args[2].Kind != "num" {
			return nil, fmt.Errorf("foreign(\"Method\", n, i)")
		}
		nm := fmt.Sprintf("fr_%s_%s_%s", e.Args[0].Str, e.Args[1].Num.String(), e.Args[2].Num.String())
		if v, ok := foreignSyms[nm]; ok {
			return v, nil
		}
		return nil, errNilDeref{"foreign call result " + nm + " does not exist on this path"}
	case "nftkey":
		if err := need(2); err != nil {
			return nil, err
		}
		return nftKey(args[0], args[1]), nil
	case "svcfound", "svcstate", "svcbatch": // what the service module answers for a request context id (expected keeper, A-MODSEP)
		if err := need(1); err != nil {
			return nil, err
		}
		ep := w.get("svcEpoch")
		if ep == nil && env.st != nil {
			x.ghost(env.st, "svcEpoch", SInt)
			if ep = w.get("svcEpoch"); ep == nil {
				ep = env.st.world.get("svcEpoch")
			}
		}
		if ep == nil {
			return nil, fmt.Errorf("%s: no service keeper in this unit", name)
		}
		if name == "svcfound" {
			return UF("svc_ctx_found", SBool, ep, args[0]), nil
		}
		// the request context type of the service module, found among the imports of the loaded packages
		for _, sp := range x.prog.ssaPkgs {
			for _, imp := range sp.Pkg.Imports() {
				if strings.HasSuffix(imp.Path(), "modules/service/exported") || strings.HasSuffix(imp.Path(), "modules/service/types") {
					if o := imp.Scope().Lookup("RequestContext"); o != nil {
						if ds := SortOf(o.Type()); ds != nil {
							fld := "State"
							if name == "svcbatch" {
								fld = "BatchCounter"
							}
							return FieldByName(UF("svc_ctx<"+ds.Name+">", ds, ep, args[0]), fld), nil
						}
					}
				}
			}
		}
		return nil, fmt.Errorf("svcstate: request context type not found")
	case "nftsof": // nftsof(class): the list of the tokens of a class as the x/nft keeper lists them (A-NFT)
		if err := need(1); err != nil {
			return nil, err
		}
		toks := w.get("nftTokens")
		if toks == nil || !isMapSort(toks.Sort) {
			return nil, fmt.Errorf("nftsof: no token table in this unit")
		}
		ls := SliceSort(toks.Sort.Fields[1].Sort.Elem)
		return UF("nft_tokens_list<"+ls.Name+">", ls, toks, args[0]), nil
	case "anyval": // anyval("SortName", ref): the value packed in a protobuf Any
		if len(e.Args) != 2 || e.Args[0].Kind != "str" {
			return nil, fmt.Errorf("anyval(\"Sort\", ref)")
		}
		ds, ok := dataSorts[e.Args[0].Str]
		if !ok {
			if parts := strings.SplitN(e.Args[0].Str, ".", 2); len(parts) == 2 {
				if gt := x.prog.lookupType(parts[0], parts[1]); gt != nil {
					ds = SortOf(gt)
					ok = ds != nil
				}
			}
		}
		if !ok {
			return nil, fmt.Errorf("anyval: unknown sort %s", e.Args[0].Str)
		}
		r, err := argT(1)
		if err != nil {
			return nil, err
		}
		return UF("any_val<"+ds.Name+">", ds, r), nil
	case "isempty":
		if err := need(1); err != nil {
			return nil, err
		}
		return Or(Eq(args[0], BytesNil), bytesEmpty(args[0])), nil
	case "creditcoins", "debitcoins": // creditcoins(bal, addr, coins)
		if err := need(3); err != nil {
			return nil, err
		}
		row := Select(args[0], args[1])
		var nr *Term
		if name == "creditcoins" {
			nr = x.pointwise(env.st, "spec_add", row, args[2], func(p, q *Term) *Term { return Add(p, q) })
		} else {
			nr = x.pointwise(env.st, "spec_sub", row, args[2], func(p, q *Term) *Term { return Sub(p, q) })
		}
		return Store(args[0], args[1], nr), nil
	case "addcoins", "subcoins": // addcoins(coinsA, coinsB) pointwise
		if err := need(2); err != nil {
			return nil, err
		}
		if name == "addcoins" {
			return x.pointwise(env.st, "spec_add", args[0], args[1], func(p, q *Term) *Term { return Add(p, q) }), nil
		}
		return x.pointwise(env.st, "spec_sub", args[0], args[1], func(p, q *Term) *Term { return Sub(p, q) }), nil
	case "pow10":
		if err := need(1); err != nil {
			return nil, err
		}
		return pow10Term(args[0]), nil
	case "addr":
		if err := need(1); err != nil {
			return nil, err
		}
		return addrOfBech(args[0]), nil
	case "bech":
		if err := need(1); err != nil {
			return nil, err
		}
		if env.st != nil {
			bechFacts(env.st, args[0])
		}
		return bechOfAddr(args[0]), nil
	case "bechok":
		if err := need(1); err != nil {
			return nil, err
		}
		return UF("bech_ok", SBool, args[0]), nil
	case "macc":
		if err := need(1); err != nil {
			return nil, err
		}
		return moduleAddr(args[0]), nil
	case "min", "max":
		if err := need(2); err != nil {
			return nil, err
		}
		if name == "min" {
			return Ite(Le(args[0], args[1]), args[0], args[1]), nil
		}
		return Ite(Ge(args[0], args[1]), args[0], args[1]), nil
	case "abs":
		if err := need(1); err != nil {
			return nil, err
		}
		return Abs(args[0]), nil
	case "ite":
		if err := need(3); err != nil {
			return nil, err
		}
		return Ite(args[0], args[1], args[2]), nil
	case "tdiv":
		if err := need(2); err != nil {
			return nil, err
		}
		return TDiv(args[0], args[1]), nil
	case "uf": // uf("name", Sort, args...) : named uninterpreted function, result Int
		if len(e.Args) < 1 || e.Args[0].Kind != "str" {
			return nil, fmt.Errorf("uf needs a name")
		}
		var as []*Term
		for i := 1; i < len(e.Args); i++ {
			t, err := argT(i)
			if err != nil {
				return nil, err
			}
			as = append(as, t)
		}
		return UF(e.Args[0].Str, SInt, as...), nil
	case "ufbytes", "ufstr":
		if len(e.Args) < 1 || e.Args[0].Kind != "str" {
			return nil, fmt.Errorf("%s needs a name", name)
		}
		var as []*Term
		for i := 1; i < len(e.Args); i++ {
			t, err := argT(i)
			if err != nil {
				return nil, err
			}
			as = append(as, t)
		}
		if name == "ufstr" {
			return UF(e.Args[0].Str, SStr, as...), nil
		}
		return UF(e.Args[0].Str, SBytes, as...), nil
	case "itseqof": // itseqof(family): a term of the sort of the key sequence of an iterator over that family (sort sample for "uses")
		if len(e.Args) != 1 || e.Args[0].Kind != "id" {
			return nil, fmt.Errorf("itseqof(family)")
		}
		fam := x.prog.famByName[e.Args[0].Name]
		if fam == nil {
			return nil, fmt.Errorf("itseqof: unknown family %s", e.Args[0].Name)
		}
		return ZeroOf(ArraySort(SInt, fam.KeySort)), nil
	case "coinsof": // coinsof(list): the sdk.Coins value of a []sdk.Coin list (what sdk.NewCoins(list...) returns)
		if err := need(1); err != nil {
			return nil, err
		}
		if u := unwrapCoinsSlice(args[0]); u.Sort == SCoins {
			return u, nil
		}
		return UF("coins_of_slice", SCoins, args[0]), nil
	case "ufb":
		if len(e.Args) < 1 || e.Args[0].Kind != "str" {
			return nil, fmt.Errorf("ufb needs a name")
		}
		var as []*Term
		for i := 1; i < len(e.Args); i++ {
			t, err := argT(i)
			if err != nil {
				return nil, err
			}
			as = append(as, t)
		}
		return UF(e.Args[0].Str, SBool, as...), nil
	case "atcallback": // atcallback(e): e over the store as it stood when the unit last called a registered module callback
		// (the store at entry when it called none): what the notified module reads when it looks the record up
		if err := need(1); err != nil {
			return nil, err
		}
		saveCur, saveOld := env.cur, env.inOld
		if env.st != nil && env.st.cbWorld != nil {
			env.cur = env.st.cbWorld
		} else {
			env.cur = env.old
		}
		env.inOld = false
		v, err := x.eval1(env, e.Args[0])
		env.cur, env.inOld = saveCur, saveOld
		return v, err
	case "zero": // zero(x): zero value of x's sort
		if err := need(1); err != nil {
			return nil, err
		}
		return ZeroOf(args[0].Sort), nil
	case "with": // with(struct, "Field", value)
		if len(e.Args) != 3 || e.Args[1].Kind != "str" {
			return nil, fmt.Errorf("with(struct, \"Field\", value)")
		}
		s, err := argT(0)
		if err != nil {
			return nil, err
		}
		v, err := argT(2)
		if err != nil {
			return nil, err
		}
		i := s.Sort.FieldIndex(e.Args[1].Str)
		if i < 0 {
			return nil, fmt.Errorf("no field %s in %s", e.Args[1].Str, s.Sort)
		}
		return WithField(s, i, v), nil
	case "hex":
		if err := need(1); err != nil {
			return nil, err
		}
		return UF("hex_of_bytes", SStr, args[0]), nil
	case "unhex":
		if err := need(1); err != nil {
			return nil, err
		}
		return UF("bytes_of_hex", SBytes, args[0]), nil
	case "bytes":
		if err := need(1); err != nil {
			return nil, err
		}
		return bytesOfStr(args[0]), nil
	case "real":
		if err := need(1); err != nil {
			return nil, err
		}
		return App("to_real", SReal, args[0]), nil
	case "ufreal":
		if len(e.Args) < 1 || e.Args[0].Kind != "str" {
			return nil, fmt.Errorf("ufreal needs a name")
		}
		var as []*Term
		for i := 1; i < len(e.Args); i++ {
			t, err := argT(i)
			if err != nil {
				return nil, err
			}
			as = append(as, t)
		}
		return UF(e.Args[0].Str, SReal, as...), nil
	case "wrap64":
		if err := need(1); err != nil {
			return nil, err
		}
		return EMod(args[0], BigLit(two64)), nil
	case "wrapi64": // the int64 a Go computation of this integer yields (two's complement wrap-around)
		if err := need(1); err != nil {
			return nil, err
		}
		half := BigLit(new(big.Int).Lsh(big.NewInt(1), 63))
		return Sub(EMod(Add(args[0], half), BigLit(two64)), half), nil
	}
	// calls of repo functions (executed symbolically; must have a single non-panicking outcome)
	if v, ok, err := x.specRepoCall(env, name, e); ok || err != nil {
		return v, err
	}
	// spec-level pure functions supplied by theories
	if fn, ok := specFuncs[name]; ok {
		var as []*Term
		for i := range e.Args {
			t, err := argT(i)
			if err != nil {
				return nil, err
			}
			as = append(as, t)
		}
		return fn(x, env, as)
	}
	return nil, fmt.Errorf("unknown spec function %s", name)
}

var specFuncs = map[string]func(x *Exec, env *Env, args []*Term) (Val, error){}

// contractEnv builds the environment for evaluating a contract of fn with the given actual arguments.
func (x *Exec) contractEnv(st *State, fn *ssa.Function, c *Contract, args []Val) *Env {
	env := &Env{x: x, vars: map[string]Val{}, cur: st.world, old: st.world, st: st, pkg: fn.Pkg}
	for i, p := range fn.Params {
		if i < len(args) {
			env.vars[p.Name()] = args[i]
			// an argument list known element-wise (variadic call, slice literal): the contract sees the slice value
			if gs, ok := args[i].(*GoSlice); ok {
				if want := SortOf(types.Unalias(p.Type())); want != nil && isSliceSort(want) {
					es := want.Fields[1].Sort.Elem
					arr := ZeroOf(want.Fields[1].Sort)
					okAll := true
					for j, e := range gs.Elems {
						et, isT := e.(*Term)
						if !isT || et.Sort != es {
							okAll = false
							break
						}
						arr = Store(arr, IntLit(int64(j)), et)
					}
					if okAll {
						env.vars[p.Name()] = Con(want, IntLit(int64(len(gs.Elems))), arr)
					}
				}
			}
		}
	}
	x.aliasParams(env, fn, c)
	return env
}

// aliasParams: a contract written with a parameter list (func Name(a, b)) names the parameters by position; where
// the code now calls a parameter differently, the contract's name is bound to the same value.
func (x *Exec) aliasParams(env *Env, fn *ssa.Function, c *Contract) {
	if c == nil || !c.HasParams {
		return
	}
	ps := fn.Params
	if fn.Signature.Recv() != nil && len(ps) > 0 {
		ps = ps[1:]
	}
	if len(ps) != len(c.Params) {
		return // the signature changed: names resolve as written
	}
	for i, p := range ps {
		want := c.Params[i]
		if want == p.Name() || want == "_" {
			continue
		}
		if v, ok := env.vars[p.Name()]; ok {
			env.vars[want] = v
		}
	}
}

// paramAlias: the contract's name of fn's i-th SSA parameter (receiver included in the count), "" when it has none.
func (c *Contract) paramAlias(fn *ssa.Function, i int) string {
	if c == nil || !c.HasParams {
		return ""
	}
	if fn.Signature.Recv() != nil {
		i--
	}
	n := len(fn.Params)
	if fn.Signature.Recv() != nil {
		n--
	}
	if i < 0 || i >= len(c.Params) || n != len(c.Params) {
		return ""
	}
	return c.Params[i]
}

func (x *Exec) bindResults(env *Env, fn *ssa.Function, c *Contract, rets []Val) {
	names := c.Returns
	sig := fn.Signature
	for i := 0; i < sig.Results().Len() && i < len(rets); i++ {
		n := ""
		if i < len(names) {
			n = names[i]
		} else if rn := sig.Results().At(i).Name(); rn != "" && rn != "_" {
			n = rn
		} else if SortOf(sig.Results().At(i).Type()) == SErr {
			n = "err"
		} else {
			n = fmt.Sprintf("result%d", i)
			if sig.Results().Len() == 1 || (sig.Results().Len() == 2 && i == 0) {
				env.vars["result"] = rets[i]
			}
		}
		env.vars[n] = rets[i]
	}
}

func (x *Exec) evalLets(env *Env, c *Contract) {
	for _, l := range c.Lets {
		v, err := x.eval(env, l.Expr)
		if err != nil {
			x.errorf("%s: let %s: %v", c.Func, l.Label, err)
			continue
		}
		env.vars[l.Label] = x.autoDeref(env, v)
	}
}

func (x *Exec) specRepoCall(env *Env, name string, e *Expr) (Val, bool, error) {
	key := name
	if !strings.Contains(name, ".") && env.pkg != nil {
		key = env.pkg.Pkg.Name() + "." + name
	}
	fn := x.prog.findFunc(key)
	if fn == nil || fn.Blocks == nil {
		return nil, false, nil
	}
	if len(fn.Params) != len(e.Args) {
		return nil, false, fmt.Errorf("%s: expects %d arguments", name, len(fn.Params))
	}
	var args []Val
	for _, a := range e.Args {
		v, err := x.eval1(env, a)
		if err != nil {
			return nil, false, err
		}
		args = append(args, x.autoDeref(env, v))
	}
	st := env.st.clone()
	w := env.world()
	if w != nil {
		st.world = w
	}
	savedObls := x.obls
	savedUnit := x.unit
	x.unit = &Unit{Name: "spec:" + key}
	outs := x.runFunction(fn, args, nil, st, nil, nil)
	x.unit = savedUnit
	x.obls = savedObls
	var ok []*Outcome
	for _, o := range outs {
		if !o.panic {
			ok = append(ok, o)
		}
	}
	if len(ok) == 0 || len(ok[0].rets) != 1 {
		return nil, false, fmt.Errorf("spec call %s: %d outcomes (need at least one with one result)", name, len(ok))
	}
	if len(ok) == 1 {
		// facts generated while executing the function are kept
		for _, t := range ok[0].st.pc[len(env.st.pc):] {
			env.st.assume(t)
		}
		return ok[0].rets[0], true, nil
	}
	// several paths: merge results by their path conditions (facts of each path guarded by its condition)
	base := len(env.st.pc)
	var res *Term
	for i := len(ok) - 1; i >= 0; i-- {
		o := ok[i]
		rt, isT := o.rets[0].(*Term)
		if !isT {
			return nil, false, fmt.Errorf("spec call %s: non-term result on a multi-path function", name)
		}
		cond := And(o.st.pc[base:]...)
		if res == nil {
			res = rt
		} else {
			res = Ite(cond, rt, res)
		}
	}
	return res, true, nil
}

// mentionsBound: the term mentions a quantifier-bound symbol (NewBound names them bv!...).
func mentionsBound(t *Term) bool {
	seen := map[*Term]bool{}
	var rec func(t *Term) bool
	rec = func(t *Term) bool {
		if t == nil || seen[t] {
			return false
		}
		seen[t] = true
		if t.kind == tSym && strings.HasPrefix(t.Name, "bv!") {
			return true
		}
		for _, a := range t.Args {
			if rec(a) {
				return true
			}
		}
		return false
	}
	return rec(t)
}
