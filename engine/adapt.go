package main

import (
	"go/token"
	"fmt"
	"os"
	"sort"
	"strings"

	"golang.org/x/tools/go/ssa"
)

// Invariant adaptation.
//
// Loop invariants live in a separate contract file and name program variables. A behaviour-preserving edit of the loop
// (a renamed counter or accumulator, a range loop rewritten as an index loop or the other way round, a 1-based counter
// made 0-based, the loop moved into a new helper function) leaves them naming variables that no longer exist. Before
// that is reported, the engine looks for a substitution of the missing names by variables that are in scope at the loop
// head (integer variables also shifted by one) under which every clause of the group is well sorted and holds on loop
// entry (decided by the solvers on the spot). If exactly such a substitution is found it is used for this loop; the
// invariant is then proved inductive like any other (inv-init / inv-keep obligations), so soundness does not depend on
// how the substitution was found. If none is found the original report stands.

type adaptBinding struct {
	name, base string
	off        int64
}

type loopAdapt struct {
	group []*Clause
	subst []adaptBinding
}

func (ad *loopAdapt) apply(env *Env) {
	for _, b := range ad.subst {
		v, ok := env.vars[b.base]
		if !ok {
			continue
		}
		if t, isT := env.x.autoDeref(env, v).(*Term); isT && t.Sort == SInt && b.off != 0 {
			env.vars[b.name] = Add(t, IntLit(b.off))
		} else {
			env.vars[b.name] = v
		}
	}
}

func (ad *loopAdapt) String() string {
	var ps []string
	for _, b := range ad.subst {
		switch {
		case b.off > 0:
			ps = append(ps, fmt.Sprintf("%s := %s + %d", b.name, b.base, b.off))
		case b.off < 0:
			ps = append(ps, fmt.Sprintf("%s := %s - %d", b.name, b.base, -b.off))
		default:
			ps = append(ps, fmt.Sprintf("%s := %s", b.name, b.base))
		}
	}
	return strings.Join(ps, ", ")
}

// freeIdents: identifiers of an expression that are not bound by a quantifier inside it.
func freeIdents(e *Expr, bound map[string]bool, out map[string]bool) {
	if e == nil {
		return
	}
	switch e.Kind {
	case "id":
		if !bound[e.Name] {
			out[e.Name] = true
		}
		return
	case "forall":
		had := bound[e.Name]
		bound[e.Name] = true
		for _, a := range e.Args {
			freeIdents(a, bound, out)
		}
		bound[e.Name] = had
		return
	case "field":
		// pkg.Name forms: only the base can be a variable
		if len(e.Args) > 0 {
			freeIdents(e.Args[0], bound, out)
		}
		return
	}
	for _, a := range e.Args {
		freeIdents(a, bound, out)
	}
}

func (x *Exec) unknownIdents(env *Env, group []*Clause) []string {
	ids := map[string]bool{}
	for _, iv := range group {
		freeIdents(iv.Expr, map[string]bool{}, ids)
	}
	var out []string
	for n := range ids {
		if _, err := x.evalIdent(env, n); err != nil && strings.Contains(err.Error(), "unknown identifier") {
			// package qualifiers and define names resolve elsewhere
			if x.prog.defines[n] != nil || x.isPkgQualifier(env, n) {
				continue
			}
			out = append(out, n)
		}
	}
	sort.Strings(out)
	return out
}

func (x *Exec) isPkgQualifier(env *Env, n string) bool {
	if env.pkg == nil {
		return false
	}
	for _, imp := range env.pkg.Pkg.Imports() {
		if imp.Name() == n {
			return true
		}
	}
	if _, ok := importAliases[n]; ok {
		return true
	}
	return env.pkg.Pkg.Name() == n
}

// tryAdapt looks for an adaptation of an invariant group to the loop at header b (see above). groups: candidate clause
// groups (the loop's own group, or - for a loop in an uncontracted helper - every unqualified group of the unit).
func (x *Exec) tryAdapt(f *Frame, st *State, b *ssa.BasicBlock, groups [][]*Clause) *loopAdapt {
	if os.Getenv("GOVC_NOADAPT") != "" {
		return nil
	}
	env := x.frameEnv(f, st, b)
	x.addTopLets(env)
	// candidate variables: what is in scope at the loop head, as terms
	type cand struct {
		name string
		t    *Term
	}
	var cands []cand
	for n, v := range env.vars {
		if strings.HasPrefix(n, "$") || strings.HasPrefix(n, "it_") {
			continue
		}
		if t, ok := x.autoDeref(env, v).(*Term); ok {
			cands = append(cands, cand{n, t})
		}
	}
	sort.Slice(cands, func(i, j int) bool { return cands[i].name < cands[j].name })
	var found *loopAdapt
	nfound := 0
	var plain []*loopAdapt // hits that rename without shifting: preferred when several substitutions hold on entry
	for _, group := range groups {
		unk := x.unknownIdents(env, group)
		if os.Getenv("GOVC_TRACE") != "" {
			fmt.Fprintf(os.Stderr, "adapt %s: group of %d clauses, unknown %v\n", f.fn.Name(), len(group), unk)
		}
		if len(unk) == 0 {
			if len(groups) == 1 {
				return nil // nothing to adapt
			}
			// a whole group of the unit offered to a helper loop: usable as it is, if it holds on entry
			if x.groupHoldsOnEntry(env, st, group) {
				found, nfound = &loopAdapt{group: group}, nfound+1
			}
			continue
		}
		// a range loop turned into an index loop: the index of the range loop is the counter of the index loop minus one
		// (the counter is the variable the loop header compares with the bound)
		var pre []adaptBinding
		for _, u := range unk {
			if u != "rangeindex" {
				continue
			}
			for _, ins := range b.Instrs {
				if bo, ok := ins.(*ssa.BinOp); ok && bo.Op == token.LSS {
					if phi, isPhi := bo.X.(*ssa.Phi); isPhi && phi.Comment != "" && phi.Block() == b {
						if _, bound := env.vars[phi.Comment]; bound && len(pre) == 0 {
							pre = append(pre, adaptBinding{name: "rangeindex", base: phi.Comment, off: -1})
						}
					}
				}
			}
		}
		if len(pre) > 0 {
			var rest []string
			for _, u := range unk {
				if u != "rangeindex" {
					rest = append(rest, u)
				}
			}
			unk = rest
		}
		if len(unk) > 3 {
			continue
		}
		// enumerate substitutions
		cur := append([]adaptBinding(nil), pre...)
		tried := 0
		var rec func(i int)
		rec = func(i int) {
			if tried > 400 || nfound > 8 {
				return
			}
			if i == len(unk) {
				tried++
				ad := &loopAdapt{group: group, subst: append([]adaptBinding(nil), cur...)}
				e2 := x.frameEnv(f, st, b)
				x.addTopLets(e2)
				ad.apply(e2)
				e2.noPromote = true
				if os.Getenv("GOVC_TRACE") != "" {
					fmt.Fprintf(os.Stderr, "adapt try %s\n", ad.String())
				}
				if x.groupHoldsOnEntry(e2, st, group) {
					found, nfound = ad, nfound+1
					shifted := false
					for _, b0 := range ad.subst {
						if b0.off != 0 {
							shifted = true
						}
					}
					if !shifted {
						plain = append(plain, ad)
					}
					if os.Getenv("GOVC_TRACE") != "" {
						fmt.Fprintf(os.Stderr, "adapt: holds on entry: %s\n", ad.String())
					}
				}
				return
			}
			for _, c := range cands {
				used := false
				for _, b0 := range cur {
					if b0.base == c.name {
						used = true
					}
				}
				if used {
					continue
				}
				offs := []int64{0}
				if c.t.Sort == SInt {
					offs = []int64{0, -1, 1}
				}
				for _, o := range offs {
					cur = append(cur, adaptBinding{name: unk[i], base: c.name, off: o})
					rec(i + 1)
					cur = cur[:len(cur)-1]
				}
			}
		}
		rec(0)
	}
	if os.Getenv("GOVC_TRACE") != "" {
		fmt.Fprintf(os.Stderr, "adapt %s: %d groups, %d candidates, found %d\n", f.fn.Name(), len(groups), len(cands), nfound)
		for _, c := range cands {
			fmt.Fprintf(os.Stderr, "adapt   candidate %s : %s\n", c.name, c.t.Sort)
		}
	}
	if nfound != 1 {
		// several substitutions hold on entry (an index shifted by one is 0 there, like a fresh accumulator): a unique
		// pure renaming wins - whatever is chosen is proved inductive afterwards, so a wrong choice cannot verify
		if len(plain) == 1 {
			return plain[0]
		}
		return nil // none, or ambiguous: do not guess
	}
	return found
}

// groupHoldsOnEntry: every clause of the group evaluates and is valid under the current path condition.
func (x *Exec) groupHoldsOnEntry(env *Env, st *State, group []*Clause) bool {
	var goals []*Term
	for _, iv := range group {
		t, err := x.evalBool(env, iv.Expr)
		if err != nil {
			if os.Getenv("GOVC_TRACE") != "" {
				fmt.Fprintf(os.Stderr, "adapt   clause %s does not evaluate: %v\n", iv.Label, err)
			}
			return false
		}
		goals = append(goals, t)
	}
	o := &Obligation{Unit: x.unit.Name, Kind: "adapt", Label: "entry", Assumes: append([]*Term(nil), st.pc...), Goal: And(goals...), Inputs: x.inputs, prog: x.prog}
	dir, err := os.MkdirTemp("", "govc-adapt-")
	if err != nil {
		return false
	}
	if os.Getenv("GOVC_TRACE") == "" {
		defer os.RemoveAll(dir)
	} else {
		fmt.Fprintf(os.Stderr, "adapt query in %s\n", dir)
	}
	if r := tryGround(dir, "adapt", o, 2); r != nil && r.Status == "unsat" {
		return true
	}
	r := Solve(dir, "adaptq", x.prog.buildScript(o), 2)
	if os.Getenv("GOVC_TRACE") != "" && r.Status != "unsat" {
		for i, g := range goals {
			o1 := *o
			o1.Goal = g
			r1 := Solve(dir, fmt.Sprintf("adaptq%d", i), x.prog.buildScript(&o1), 2)
			fmt.Fprintf(os.Stderr, "adapt   clause %s on entry: %s\n", group[i].Label, r1.Status)
		}
	}
	return r.Status == "unsat"
}
