package main

import (
	"fmt"
	"math/big"
	"sort"
	"strconv"
	"strings"
	"sync"
)

// ---------------------------------------------------------------------------------------
// Sorts

type SortKind int

const (
	KInt SortKind = iota
	KBool
	KReal
	KUninterp
	KArray
	KData
)

type Field struct {
	Name string
	Sort *Sort
}

type Sort struct {
	Kind   SortKind
	Name   string // SMT name for uninterp / datatype
	Key    *Sort  // arrays
	Elem   *Sort  // arrays
	Fields []Field
	GoType string // informational
}

var (
	SInt   = &Sort{Kind: KInt, Name: "Int"}
	SBool  = &Sort{Kind: KBool, Name: "Bool"}
	SReal  = &Sort{Kind: KReal, Name: "Real"}
	SStr   = &Sort{Kind: KUninterp, Name: "Str"}
	SBytes = &Sort{Kind: KUninterp, Name: "Bytes"}
	SErr   = &Sort{Kind: KUninterp, Name: "Err"}
	SRef   = &Sort{Kind: KUninterp, Name: "Ref"}
)

var arraySorts = map[string]*Sort{}

func ArraySort(k, v *Sort) *Sort {
	n := "(Array " + k.String() + " " + v.String() + ")"
	if s, ok := arraySorts[n]; ok {
		return s
	}
	s := &Sort{Kind: KArray, Name: n, Key: k, Elem: v}
	arraySorts[n] = s
	return s
}

var dataSorts = map[string]*Sort{}
var dataOrder []*Sort

func DataSort(name string, fields []Field) *Sort {
	if s, ok := dataSorts[name]; ok {
		return s
	}
	s := &Sort{Kind: KData, Name: name, Fields: fields}
	dataSorts[name] = s
	dataOrder = append(dataOrder, s)
	return s
}

func (s *Sort) String() string {
	switch s.Kind {
	case KData:
		return smtIdent(s.Name)
	case KArray:
		return "(Array " + s.Key.String() + " " + s.Elem.String() + ")"
	}
	return s.Name
}

func (s *Sort) FieldIndex(name string) int {
	for i, f := range s.Fields {
		if f.Name == name {
			return i
		}
	}
	return -1
}

var SCoin = DataSort("Coin", []Field{{"Denom", SStr}, {"Amount", SInt}})
var SCoins = ArraySort(SStr, SInt)
var SDec = DataSort("Dec", []Field{{"isnil", SBool}, {"raw", SInt}})

// ---------------------------------------------------------------------------------------
// Terms

type Term struct {
	Op   string // smt operator, or "" for leaf
	Args []*Term
	Sort *Sort
	Name string   // for leaves: symbol / literal text
	Lit  *big.Int // integer literal
	kind termKind
	id   int
}

var internTab = map[string]*Term{}
var internMu sync.Mutex

// intern returns the canonical pointer for a structurally identical term (hash-consing).
func intern(t *Term) *Term {
	var sb strings.Builder
	sb.WriteString(strconv.Itoa(int(t.kind)))
	sb.WriteByte('|')
	sb.WriteString(t.Op)
	sb.WriteByte('|')
	sb.WriteString(t.Name)
	sb.WriteByte('|')
	sb.WriteString(t.Sort.Name)
	if t.Lit != nil {
		sb.WriteByte('|')
		sb.WriteString(t.Lit.String())
	}
	for _, a := range t.Args {
		sb.WriteByte(',')
		sb.WriteString(strconv.Itoa(a.id))
	}
	k := sb.String()
	internMu.Lock()
	defer internMu.Unlock()
	if o, ok := internTab[k]; ok {
		return o
	}
	t.id = len(internTab) + 1
	internTab[k] = t
	return t
}

type termKind int

const (
	tApp termKind = iota
	tSym          // declared constant
	tIntLit
	tBoolLit
	tSel   // datatype selector: Name = selector name
	tCon   // datatype constructor
	tConst // const array
	tRealLit
	tUF // uninterpreted function application: Op = function name
	tQuant // forall: Name = bound symbol name, Args[0] = body, Args[1] = the bound Sym
)

var (
	True  = intern(&Term{kind: tBoolLit, Name: "true", Sort: SBool})
	False = intern(&Term{kind: tBoolLit, Name: "false", Sort: SBool})
)

func IntLit(i int64) *Term { return BigLit(big.NewInt(i)) }
func BigLit(b *big.Int) *Term {
	return intern(&Term{kind: tIntLit, Lit: new(big.Int).Set(b), Sort: SInt})
}
func BoolLit(b bool) *Term {
	if b {
		return True
	}
	return False
}

func Sym(name string, s *Sort) *Term { return intern(&Term{kind: tSym, Name: name, Sort: s}) }

func (t *Term) IsTrue() bool  { return t.kind == tBoolLit && t.Name == "true" }
func (t *Term) IsFalse() bool { return t.kind == tBoolLit && t.Name == "false" }
func (t *Term) IsLit() bool   { return t.kind == tIntLit }

func App(op string, s *Sort, args ...*Term) *Term {
	return intern(&Term{kind: tApp, Op: op, Args: args, Sort: s})
}

// uninterpreted function registry: name -> (arg sorts, result sort)
type ufDecl struct {
	Name string
	Args []*Sort
	Res  *Sort
}

var ufDecls = map[string]*ufDecl{}

func UF(name string, res *Sort, args ...*Term) *Term {
	if d, ok := ufDecls[name]; !ok {
		as := make([]*Sort, len(args))
		for i, a := range args {
			as[i] = a.Sort
		}
		ufDecls[name] = &ufDecl{name, as, res}
	} else {
		if len(d.Args) != len(args) {
			panic("UF arity mismatch " + name)
		}
		for i, a := range args {
			if d.Args[i] != a.Sort {
				panic(fmt.Sprintf("UF %s arg %d sort mismatch: %s vs %s", name, i, d.Args[i], a.Sort))
			}
		}
	}
	return intern(&Term{kind: tUF, Op: name, Args: args, Sort: res})
}

var boundCounter int

// Forall builds (forall ((v S)) body) where v is a Sym created by NewBound.
func NewBound(name string, s *Sort) *Term {
	boundCounter++
	return Sym(fmt.Sprintf("bv!%s!%d", name, boundCounter), s)
}

func Forall(v *Term, body *Term, pats ...*Term) *Term {
	if body.IsTrue() {
		return True
	}
	return intern(&Term{kind: tQuant, Op: "forall", Name: v.Name, Args: append([]*Term{body, v}, pats...), Sort: SBool})
}

// substitute replaces symbol `from` by `to` in t.
func substitute(t *Term, from, to *Term, memo map[*Term]*Term) *Term {
	if t == from {
		return to
	}
	if len(t.Args) == 0 {
		return t
	}
	if r, ok := memo[t]; ok {
		return r
	}
	changed := false
	args := make([]*Term, len(t.Args))
	for i, a := range t.Args {
		args[i] = substitute(a, from, to, memo)
		if args[i] != a {
			changed = true
		}
	}
	r := t
	if changed {
		n := *t
		n.Args = args
		n.id = 0
		r = intern(&n)
	}
	memo[t] = r
	return r
}

func Not(a *Term) *Term {
	if a.IsTrue() {
		return False
	}
	if a.IsFalse() {
		return True
	}
	if a.kind == tApp && a.Op == "not" {
		return a.Args[0]
	}
	if a.kind == tApp && len(a.Args) == 2 {
		switch a.Op {
		case "<":
			return App(">=", SBool, a.Args[0], a.Args[1])
		case "<=":
			return App(">", SBool, a.Args[0], a.Args[1])
		case ">":
			return App("<=", SBool, a.Args[0], a.Args[1])
		case ">=":
			return App("<", SBool, a.Args[0], a.Args[1])
		}
	}
	return App("not", SBool, a)
}

func And(as ...*Term) *Term {
	var out []*Term
	for _, a := range as {
		if a == nil || a.IsTrue() {
			continue
		}
		if a.IsFalse() {
			return False
		}
		if a.kind == tApp && a.Op == "and" {
			out = append(out, a.Args...)
		} else {
			out = append(out, a)
		}
	}
	if len(out) == 0 {
		return True
	}
	if len(out) == 1 {
		return out[0]
	}
	return App("and", SBool, out...)
}

func Or(as ...*Term) *Term {
	var out []*Term
	for _, a := range as {
		if a == nil || a.IsFalse() {
			continue
		}
		if a.IsTrue() {
			return True
		}
		out = append(out, a)
	}
	if len(out) == 0 {
		return False
	}
	if len(out) == 1 {
		return out[0]
	}
	return App("or", SBool, out...)
}

func Implies(a, b *Term) *Term {
	if a.IsTrue() {
		return b
	}
	if a.IsFalse() || b.IsTrue() {
		return True
	}
	return App("=>", SBool, a, b)
}

func Ite(c, a, b *Term) *Term {
	if c.IsTrue() {
		return a
	}
	if c.IsFalse() {
		return b
	}
	if a == b {
		return a
	}
	if a.Sort != b.Sort {
		panic(fmt.Sprintf("ite sort mismatch %s vs %s", a.Sort, b.Sort))
	}
	return App("ite", a.Sort, c, a, b)
}

func Eq(a, b *Term) *Term {
	if a.Sort != b.Sort {
		panic(fmt.Sprintf("eq sort mismatch %s vs %s (%s = %s)", a.Sort, b.Sort, a.Short(), b.Short()))
	}
	if a == b {
		return True
	}
	if a.kind == tIntLit && b.kind == tIntLit {
		return BoolLit(a.Lit.Cmp(b.Lit) == 0)
	}
	if a.kind == tBoolLit && b.kind == tBoolLit {
		return BoolLit(a.Name == b.Name)
	}
	if a.kind == tSym && b.kind == tSym && a.Name == b.Name {
		return True
	}
	if a.kind == tBoolLit {
		if a.IsTrue() {
			return b
		}
		return Not(b)
	}
	if b.kind == tBoolLit {
		if b.IsTrue() {
			return a
		}
		return Not(a)
	}
	return App("=", SBool, a, b)
}

func Neq(a, b *Term) *Term { return Not(Eq(a, b)) }

func arith(op string, a, b *Term) *Term {
	if a.Sort != b.Sort {
		panic(fmt.Sprintf("arith %s sort mismatch %s vs %s", op, a.Sort, b.Sort))
	}
	if a.kind == tIntLit && b.kind == tIntLit {
		r := new(big.Int)
		switch op {
		case "+":
			return BigLit(r.Add(a.Lit, b.Lit))
		case "-":
			return BigLit(r.Sub(a.Lit, b.Lit))
		case "*":
			return BigLit(r.Mul(a.Lit, b.Lit))
		}
	}
	if a.kind == tIntLit && a.Lit.Sign() == 0 {
		switch op {
		case "+":
			return b
		case "*":
			return a
		}
	}
	if b.kind == tIntLit && b.Lit.Sign() == 0 {
		switch op {
		case "+", "-":
			return a
		case "*":
			return b
		}
	}
	if op == "*" {
		if a.kind == tIntLit && a.Lit.Cmp(big.NewInt(1)) == 0 {
			return b
		}
		if b.kind == tIntLit && b.Lit.Cmp(big.NewInt(1)) == 0 {
			return a
		}
	}
	return App(op, a.Sort, a, b)
}

func Add(a, b *Term) *Term { return arith("+", a, b) }
func Sub(a, b *Term) *Term { return arith("-", a, b) }
func Mul(a, b *Term) *Term { return arith("*", a, b) }
func Neg(a *Term) *Term    { return Sub(IntLit(0), a) }

func cmp(op string, a, b *Term) *Term {
	if a.Sort != b.Sort {
		panic(fmt.Sprintf("cmp %s sort mismatch %s vs %s", op, a.Sort, b.Sort))
	}
	if a.kind == tIntLit && b.kind == tIntLit {
		c := a.Lit.Cmp(b.Lit)
		switch op {
		case "<":
			return BoolLit(c < 0)
		case "<=":
			return BoolLit(c <= 0)
		case ">":
			return BoolLit(c > 0)
		case ">=":
			return BoolLit(c >= 0)
		}
	}
	return App(op, SBool, a, b)
}
func Lt(a, b *Term) *Term { return cmp("<", a, b) }
func Le(a, b *Term) *Term { return cmp("<=", a, b) }
func Gt(a, b *Term) *Term { return cmp(">", a, b) }
func Ge(a, b *Term) *Term { return cmp(">=", a, b) }

// EDiv / EMod: SMT-LIB div/mod (euclidean).
func EDiv(a, b *Term) *Term {
	if a.kind == tIntLit && b.kind == tIntLit && b.Lit.Sign() != 0 {
		q, m := new(big.Int).DivMod(a.Lit, b.Lit, new(big.Int))
		_ = m
		return BigLit(q)
	}
	return App("div", SInt, a, b)
}
func EMod(a, b *Term) *Term {
	if a.kind == tIntLit && b.kind == tIntLit && b.Lit.Sign() != 0 {
		_, m := new(big.Int).DivMod(a.Lit, b.Lit, new(big.Int))
		return BigLit(m)
	}
	return App("mod", SInt, a, b)
}

func Abs(a *Term) *Term { return Ite(Ge(a, IntLit(0)), a, Neg(a)) }

// TDiv: truncated division (Go / big.Int.Quo semantics), b != 0 assumed. Emitted as a defined SMT function
// so that terms stay small.
func TDiv(a, b *Term) *Term {
	if a.kind == tIntLit && b.kind == tIntLit && b.Lit.Sign() != 0 {
		return BigLit(new(big.Int).Quo(a.Lit, b.Lit))
	}
	if b.kind == tIntLit && b.Lit.Sign() > 0 && a.kind == tIntLit {
		return BigLit(new(big.Int).Quo(a.Lit, b.Lit))
	}
	return App("tdiv", SInt, a, b)
}

// TRem: truncated remainder (Go % / big.Int.Rem)
func TRem(a, b *Term) *Term {
	if a.kind == tIntLit && b.kind == tIntLit && b.Lit.Sign() != 0 {
		return BigLit(new(big.Int).Rem(a.Lit, b.Lit))
	}
	return Sub(a, Mul(b, TDiv(a, b)))
}

const tdivDef = "(define-fun tdiv ((a Int) (b Int)) Int (ite (>= a 0) (ite (> b 0) (div a b) (- (div a (- b)))) (ite (> b 0) (- (div (- a) b)) (div (- a) (- b)))))\n"

// with quantifiers in the VC: an uninterpreted symbol with a triggered definitional axiom (keeps congruence cheap)
const tdivAxiom = "(declare-fun tdiv (Int Int) Int)\n(assert (forall ((a Int) (b Int)) (! (= (tdiv a b) (ite (>= a 0) (ite (> b 0) (div a b) (- (div a (- b)))) (ite (> b 0) (- (div (- a) b)) (div (- a) (- b))))) :pattern ((tdiv a b)))))\n"

func Select(arr, idx *Term) *Term {
	if arr.Sort.Kind != KArray {
		panic("select on non-array " + arr.Sort.String())
	}
	if arr.Sort.Key != idx.Sort {
		panic(fmt.Sprintf("select key sort mismatch: %s vs %s", arr.Sort.Key, idx.Sort))
	}
	// light read-over-write simplification
	cur := arr
	for cur.kind == tApp && cur.Op == "store" {
		e := Eq(cur.Args[1], idx)
		if e.IsTrue() {
			return cur.Args[2]
		}
		if e.IsFalse() {
			cur = cur.Args[0]
			continue
		}
		break
	}
	if cur.kind == tConst {
		return cur.Args[0]
	}
	return App("select", arr.Sort.Elem, cur, idx)
}

func Store(arr, idx, v *Term) *Term {
	if arr.Sort.Kind != KArray {
		panic("store on non-array")
	}
	if arr.Sort.Key != idx.Sort || arr.Sort.Elem != v.Sort {
		panic(fmt.Sprintf("store sort mismatch: %s [%s] := %s", arr.Sort, idx.Sort, v.Sort))
	}
	return App("store", arr.Sort, arr, idx, v)
}

func ConstArray(s *Sort, v *Term) *Term {
	return intern(&Term{kind: tConst, Sort: s, Args: []*Term{v}})
}

func Con(s *Sort, args ...*Term) *Term {
	if len(args) != len(s.Fields) {
		panic("constructor arity " + s.Name)
	}
	for i, a := range args {
		if a.Sort != s.Fields[i].Sort {
			panic(fmt.Sprintf("constructor %s field %s sort mismatch %s vs %s", s.Name, s.Fields[i].Name, s.Fields[i].Sort, a.Sort))
		}
	}
	return intern(&Term{kind: tCon, Sort: s, Args: args})
}

func SelField(t *Term, i int) *Term {
	if t.Sort.Kind != KData {
		panic("field select on non-datatype " + t.Sort.String() + " " + t.Short())
	}
	if t.kind == tCon {
		return t.Args[i]
	}
	if t.kind == tApp && t.Op == "ite" {
		// push selection through ite of constructors to keep terms small
		if t.Args[1].kind == tCon || t.Args[2].kind == tCon {
			return Ite(t.Args[0], SelField(t.Args[1], i), SelField(t.Args[2], i))
		}
	}
	return intern(&Term{kind: tSel, Name: t.Sort.Name + "." + t.Sort.Fields[i].Name, Args: []*Term{t}, Sort: t.Sort.Fields[i].Sort, Lit: big.NewInt(int64(i))})
}

func FieldByName(t *Term, name string) *Term {
	i := t.Sort.FieldIndex(name)
	if i < 0 {
		panic("no field " + name + " in " + t.Sort.Name)
	}
	return SelField(t, i)
}

func WithField(t *Term, i int, v *Term) *Term {
	args := make([]*Term, len(t.Sort.Fields))
	for j := range args {
		if j == i {
			args[j] = v
		} else {
			args[j] = SelField(t, j)
		}
	}
	return Con(t.Sort, args...)
}

// ---------------------------------------------------------------------------------------
// Printing

func smtIdent(s string) string {
	ok := true
	for _, c := range s {
		if !(c >= 'a' && c <= 'z' || c >= 'A' && c <= 'Z' || c >= '0' && c <= '9' || strings.ContainsRune("_.!$%&*+-/<=>?@^~", c)) {
			ok = false
			break
		}
	}
	if ok && len(s) > 0 && !(s[0] >= '0' && s[0] <= '9') {
		return s
	}
	return "|" + strings.ReplaceAll(strings.ReplaceAll(s, "|", "!"), "\\", "!") + "|"
}

func selName(sortName, field string) string { return smtIdent(sortName + "." + field) }
func conName(sortName string) string        { return smtIdent("mk." + sortName) }

func (t *Term) Short() string {
	s := t.String()
	if len(s) > 200 {
		return s[:200] + "..."
	}
	return s
}

// String prints as a tree (may be large); used for small terms and debugging.
func (t *Term) String() string {
	var sb strings.Builder
	printTerm(&sb, t, nil)
	return sb.String()
}

func litStr(b *big.Int) string {
	if b.Sign() < 0 {
		return "(- " + new(big.Int).Neg(b).String() + ")"
	}
	return b.String()
}

func printTerm(sb *strings.Builder, t *Term, names map[*Term]string) {
	if names != nil {
		if n, ok := names[t]; ok {
			sb.WriteString(n)
			return
		}
	}
	switch t.kind {
	case tSym:
		sb.WriteString(smtIdent(t.Name))
	case tIntLit:
		sb.WriteString(litStr(t.Lit))
	case tRealLit:
		sb.WriteString(t.Name)
	case tBoolLit:
		sb.WriteString(t.Name)
	case tSel:
		sb.WriteString("(" + smtIdent(t.Name) + " ")
		printTerm(sb, t.Args[0], names)
		sb.WriteString(")")
	case tCon:
		if len(t.Args) == 0 {
			sb.WriteString(conName(t.Sort.Name))
			return
		}
		sb.WriteString("(" + conName(t.Sort.Name))
		for _, a := range t.Args {
			sb.WriteString(" ")
			printTerm(sb, a, names)
		}
		sb.WriteString(")")
	case tConst:
		sb.WriteString("((as const " + t.Sort.String() + ") ")
		printTerm(sb, t.Args[0], names)
		sb.WriteString(")")
	case tQuant:
		// nested foralls without own patterns are merged into one binder list; Args[2:] is one multi-pattern
		sb.WriteString("(forall (")
		q := t
		for {
			sb.WriteString("(" + smtIdent(q.Name) + " " + q.Args[1].Sort.String() + ")")
			if len(q.Args) == 2 && q.Args[0].kind == tQuant {
				q = q.Args[0]
				continue
			}
			break
		}
		sb.WriteString(") ")
		if len(q.Args) > 2 && patternsOK(q.Args[2:]) {
			sb.WriteString("(! ")
			printTerm(sb, q.Args[0], names)
			sb.WriteString(" :pattern (")
			for i, pt := range q.Args[2:] {
				if i > 0 {
					sb.WriteString(" ")
				}
				printTerm(sb, pt, names)
			}
			sb.WriteString("))")
		} else {
			printTerm(sb, q.Args[0], names)
		}
		sb.WriteString(")")
	case tUF:
		if len(t.Args) == 0 {
			sb.WriteString(smtIdent(t.Op))
			return
		}
		sb.WriteString("(" + smtIdent(t.Op))
		for _, a := range t.Args {
			sb.WriteString(" ")
			printTerm(sb, a, names)
		}
		sb.WriteString(")")
	default:
		if t.Op == "-" && len(t.Args) == 2 && t.Args[0].kind == tIntLit && t.Args[0].Lit.Sign() == 0 {
			sb.WriteString("(- ")
			printTerm(sb, t.Args[1], names)
			sb.WriteString(")")
			return
		}
		sb.WriteString("(" + t.Op)
		for _, a := range t.Args {
			sb.WriteString(" ")
			printTerm(sb, a, names)
		}
		sb.WriteString(")")
	}
}

// Script builds an SMT-LIB script for: assumptions /\ not goal.
type Script struct {
	Assumes []*Term
	Goal    *Term   // may be nil (then: satisfiability of assumptions)
	Values  []*Term // terms whose values are requested on sat
}

func collect(t *Term, seen map[*Term]int, order *[]*Term) {
	// iterative post-order
	type frame struct {
		t *Term
		i int
	}
	stack := []frame{{t, 0}}
	for len(stack) > 0 {
		f := &stack[len(stack)-1]
		if f.i == 0 {
			if c, ok := seen[f.t]; ok {
				seen[f.t] = c + 1
				stack = stack[:len(stack)-1]
				continue
			}
		}
		if f.i < len(f.t.Args) {
			a := f.t.Args[f.i]
			f.i++
			stack = append(stack, frame{a, 0})
			continue
		}
		seen[f.t] = 1
		*order = append(*order, f.t)
		stack = stack[:len(stack)-1]
	}
}

func sortDeps(s *Sort, seenU map[string]*Sort, seenD map[string]bool, dorder *[]*Sort) {
	switch s.Kind {
	case KUninterp:
		seenU[s.Name] = s
	case KArray:
		sortDeps(s.Key, seenU, seenD, dorder)
		sortDeps(s.Elem, seenU, seenD, dorder)
	case KData:
		if seenD[s.Name] {
			return
		}
		seenD[s.Name] = true
		for _, f := range s.Fields {
			sortDeps(f.Sort, seenU, seenD, dorder)
		}
		*dorder = append(*dorder, s)
	}
}

func (sc *Script) Render(logic string, produceModels bool) string {
	seen := map[*Term]int{}
	var order []*Term
	roots := append([]*Term{}, sc.Assumes...)
	if sc.Goal != nil {
		roots = append(roots, sc.Goal)
	}
	roots = append(roots, sc.Values...)
	for _, r := range roots {
		collect(r, seen, &order)
	}
	seenU := map[string]*Sort{}
	seenD := map[string]bool{}
	var dorder []*Sort
	syms := map[string]*Term{}
	ufs := map[string]*ufDecl{}
	bound := map[string]bool{}
	for _, t := range order {
		if t.kind == tQuant {
			bound[t.Name] = true
		}
	}
	hasBound := map[*Term]bool{}
	if len(bound) > 0 {
		for _, t := range order { // post-order: children first
			if t.kind == tSym && bound[t.Name] {
				hasBound[t] = true
				continue
			}
			for _, a := range t.Args {
				if hasBound[a] {
					hasBound[t] = true
					break
				}
			}
		}
	}
	for _, t := range order {
		sortDeps(t.Sort, seenU, seenD, &dorder)
		switch t.kind {
		case tSym:
			if bound[t.Name] {
				continue
			}
			if o, ok := syms[t.Name]; ok && o.Sort != t.Sort {
				panic("symbol " + t.Name + " declared with two sorts: " + o.Sort.String() + " / " + t.Sort.String())
			}
			syms[t.Name] = t
		case tUF:
			ufs[t.Op] = ufDecls[t.Op]
		}
	}
	for _, d := range ufs {
		for _, a := range d.Args {
			sortDeps(a, seenU, seenD, &dorder)
		}
		sortDeps(d.Res, seenU, seenD, &dorder)
	}
	var sb strings.Builder
	if produceModels {
		sb.WriteString("(set-option :produce-models true)\n")
	}
	if logic != "" {
		sb.WriteString("(set-logic " + logic + ")\n")
	}
	var un []string
	for n := range seenU {
		un = append(un, n)
	}
	sort.Strings(un)
	for _, n := range un {
		sb.WriteString("(declare-sort " + n + " 0)\n")
	}
	for _, d := range dorder {
		sb.WriteString("(declare-datatypes ((" + smtIdent(d.Name) + " 0)) (((" + conName(d.Name))
		for _, f := range d.Fields {
			sb.WriteString(" (" + selName(d.Name, f.Name) + " " + f.Sort.String() + ")")
		}
		sb.WriteString("))))\n")
	}
	var sn []string
	for n := range syms {
		sn = append(sn, n)
	}
	sort.Strings(sn)
	for _, n := range sn {
		sb.WriteString("(declare-fun " + smtIdent(n) + " () " + syms[n].Sort.String() + ")\n")
	}
	var fn []string
	for n := range ufs {
		fn = append(fn, n)
	}
	sort.Strings(fn)
	for _, n := range fn {
		d := ufs[n]
		sb.WriteString("(declare-fun " + smtIdent(n) + " (")
		for i, a := range d.Args {
			if i > 0 {
				sb.WriteString(" ")
			}
			sb.WriteString(a.String())
		}
		sb.WriteString(") " + d.Res.String() + ")\n")
	}
	for _, t := range order {
		if t.kind == tApp && t.Op == "tdiv" {
			if len(bound) > 0 {
				sb.WriteString(tdivAxiom)
			} else {
				sb.WriteString(tdivDef)
			}
			break
		}
	}
	// shared subterms -> define-fun
	names := map[*Term]string{}
	k := 0
	for _, t := range order {
		if seen[t] > 1 && len(t.Args) > 0 && !hasBound[t] {
			var b strings.Builder
			printTerm(&b, t, names)
			n := fmt.Sprintf("$t%d", k)
			k++
			sb.WriteString("(define-fun " + n + " () " + t.Sort.String() + " " + b.String() + ")\n")
			names[t] = n
		}
	}
	for _, a := range sc.Assumes {
		sb.WriteString("(assert ")
		printTerm(&sb, a, names)
		sb.WriteString(")\n")
	}
	if sc.Goal != nil {
		sb.WriteString("(assert (not ")
		printTerm(&sb, sc.Goal, names)
		sb.WriteString("))\n")
	}
	sb.WriteString("(check-sat)\n")
	if produceModels && len(sc.Values) > 0 {
		sb.WriteString("(get-value (")
		for i, v := range sc.Values {
			if i > 0 {
				sb.WriteString(" ")
			}
			printTerm(&sb, v, nil)
		}
		sb.WriteString("))\n")
	}
	return sb.String()
}

// Sorted string set helper
func sortedKeys[V any](m map[string]V) []string {
	var ks []string
	for k := range m {
		ks = append(ks, k)
	}
	sort.Strings(ks)
	return ks
}


// patternsOK: SMT solvers accept only function applications in patterns (no ite, connectives, arithmetic relations).
func patternsOK(ps []*Term) bool {
	var ok func(t *Term) bool
	ok = func(t *Term) bool {
		if t.kind == tApp && t.Op != "select" && t.Op != "store" {
			return false
		}
		if t.kind == tQuant {
			return false
		}
		for _, a := range t.Args {
			if !ok(a) {
				return false
			}
		}
		return true
	}
	for _, p := range ps {
		if !ok(p) {
			return false
		}
	}
	return true
}

// lenRange: a Go length is a non-negative int.
func lenRange(l *Term) *Term {
	return And(Ge(l, IntLit(0)), Le(l, IntLit(9223372036854775807)))
}

// bytesEmpty: the byte string has length zero (what AccAddress.Empty and len(a) == 0 both test).
func bytesEmpty(a *Term) *Term {
	return Eq(UF("bytes_len", SInt, a), IntLit(0))
}
