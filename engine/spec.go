package main

import (
	"fmt"
	"math/big"
	"os"
	"strconv"
	"strings"
)

// ---------------------------------------------------------------------------------------
// Contract files: //@ lines.

type Clause struct {
	Props []string // when non-empty: the clause belongs only to these properties
	Label string
	Expr  *Expr
	Src   string
	Loop  int // for invariants
	Fn    string // for invariants: only for loops of this function (closures: Parent$n); "" = any
	Line  int
}

// Hint restricts the quantified assumptions used for one obligation to the listed sources.
type Hint struct {
	Label string
	From  []string
}

type LemmaUse struct {
	Anchor string // "entry", "return", "call:Name#k"
	Name   string
	Guard  *Expr // optional: "lemma @return name(args) if guard"
	Args   []*Expr
	Line   int
}

type Contract struct {
	File       string
	Func       string // "GetInputPrice", "Keeper.swapCoins", "*Keeper.Foo" is written as "Keeper.Foo"
	Properties []string
	Returns    []string
	Params     []string // contract's names of the parameters (receiver excluded), positional
	HasParams  bool
	Requires   []*Clause
	Ensures    []*Clause
	Invariants []*Clause
	Lets       []*Clause // Label = name ; evaluated at entry
	Modifies   []string
	ModAll     bool
	NoPanic    bool
	NoPanicFor []string // when non-empty: nopanic obligations belong only to these properties
	Inline     bool
	Trusted    bool // contract assumed, body not verified (listed in evidence)
	Pure       bool // may be called from spec expressions
	Lemmas     []*LemmaUse
	Uses       []*LemmaUse // axioms/lemmas assumed in universally quantified form for the whole unit
	Asserts    []*Clause // Label = anchor
	Hints      []*Hint   // by <obligation label>: source, source, ...
	Witness    []*Clause // definitions of skolem functions used in ensures (assumed at return; the function symbol must be fresh)
	Bounds     []string
	Split      *Expr
	SplitLo    int64
	SplitHi    int64
	Line       int
	used       bool
}

type Define struct {
	Name   string
	Params []string
	Body   *Expr
}

type FamilyDecl struct {
	Name    string
	KeyFunc string   // qualified: "types.GetPoolKey"
	Value   string   // Go type expr as written: "types.Pool", "uint64", "string", "bytes", "unit"
	Enc     string   // "proto", "be64", "str", "raw", "unit", "protoU64", "protoStr"...
	Prefix  []string // partial key functions producing prefixes of this family (for iterators)
	Slices  map[string]int // "9:" -> index of the key argument obtained by slicing a full key
	FixedLen []int         // key components declared to be of fixed encoded length (key-layout audit)
	PrefixBy map[string][]string // prefix func -> projections (see "prefixby")
	Line    int
}

type LemmaDecl struct {
	Name     string
	Params   []Param
	Requires []*Clause
	Ensures  []*Clause
	Axiom    bool
}

type Param struct {
	Name string
	Sort string
}

type SpecFile struct {
	Path      string
	Contracts []*Contract
	Defines   []*Define
	Families  []*FamilyDecl
	Lemmas    []*LemmaDecl
	Raw       []string
}

var clauseKeywords = map[string]bool{
	"func": true, "property": true, "returns": true, "requires": true, "ensures": true, "invariant": true,
	"let": true, "modifies": true, "nopanic": true, "inline": true, "trusted": true, "pure": true, "lemma": true,
	"assert": true, "by": true, "witness": true, "uses": true, "split": true, "define": true, "family": true, "deflemma": true, "axiom": true, "end": true, "bound": true, "note": true,
}

func ParseSpecFile(path string) (*SpecFile, error) {
	data, err := os.ReadFile(path)
	if err != nil {
		return nil, err
	}
	sf := &SpecFile{Path: path}
	type rawClause struct {
		kw, text string
		line     int
	}
	var clauses []rawClause
	for i, line := range strings.Split(string(data), "\n") {
		t := strings.TrimSpace(line)
		if !strings.HasPrefix(t, "//@") {
			continue
		}
		body := strings.TrimSpace(strings.TrimPrefix(t, "//@"))
		if body == "" || strings.HasPrefix(body, "#") {
			continue
		}
		// strip trailing comment introduced by " //"
		if j := strings.Index(body, " // "); j >= 0 {
			body = strings.TrimSpace(body[:j])
		}
		w := body
		if j := strings.IndexAny(body, " \t"); j >= 0 {
			w = body[:j]
		}
		if clauseKeywords[w] {
			clauses = append(clauses, rawClause{w, strings.TrimSpace(body[len(w):]), i + 1})
		} else {
			if len(clauses) == 0 {
				return nil, fmt.Errorf("%s:%d: continuation without clause", path, i+1)
			}
			clauses[len(clauses)-1].text += " " + body
		}
	}
	var cur *Contract
	var curLemma *LemmaDecl
	for _, rc := range clauses {
		perr := func(e error) error { return fmt.Errorf("%s:%d: %v (in %q)", path, rc.line, e, rc.text) }
		switch rc.kw {
		case "func":
			cur = &Contract{File: path, Func: strings.TrimSpace(rc.text), Line: rc.line}
			// func Name(a, b, c): the names this contract uses for the parameters, bound by position (a renamed
			// parameter keeps its contract)
			if p := strings.Index(cur.Func, "("); p >= 0 && strings.HasSuffix(cur.Func, ")") {
				cur.HasParams = true
				for _, n := range strings.Split(cur.Func[p+1:len(cur.Func)-1], ",") {
					if n = strings.TrimSpace(n); n != "" {
						cur.Params = append(cur.Params, n)
					}
				}
				cur.Func = strings.TrimSpace(cur.Func[:p])
			}
			curLemma = nil
			sf.Contracts = append(sf.Contracts, cur)
		case "end":
			cur = nil
			curLemma = nil
		case "note":
		case "define":
			// define name(a, b) = expr
			eq := strings.Index(rc.text, "=")
			if eq < 0 {
				return nil, perr(fmt.Errorf("define needs ="))
			}
			head := strings.TrimSpace(rc.text[:eq])
			// careful: '=' could be part of '==' in head? heads have no ==.
			d := &Define{}
			if p := strings.Index(head, "("); p >= 0 {
				d.Name = strings.TrimSpace(head[:p])
				ps := strings.TrimSuffix(strings.TrimSpace(head[p+1:]), ")")
				for _, x := range strings.Split(ps, ",") {
					if x = strings.TrimSpace(x); x != "" {
						d.Params = append(d.Params, x)
					}
				}
			} else {
				d.Name = head
			}
			e, err := ParseExpr(rc.text[eq+1:])
			if err != nil {
				return nil, perr(err)
			}
			d.Body = e
			sf.Defines = append(sf.Defines, d)
		case "family":
			// family <name> key <func> value <type> enc <enc> [prefix f1,f2]
			fs := strings.Fields(rc.text)
			fd := &FamilyDecl{Line: rc.line}
			if len(fs) < 1 {
				return nil, perr(fmt.Errorf("family needs a name"))
			}
			fd.Name = fs[0]
			for i := 1; i+1 < len(fs); i += 2 {
				switch fs[i] {
				case "key":
					fd.KeyFunc = fs[i+1]
				case "value":
					fd.Value = fs[i+1]
				case "enc":
					fd.Enc = fs[i+1]
				case "prefix":
					fd.Prefix = strings.Split(fs[i+1], ",")
				case "prefixby":
					// prefixby <func>:<uf1>+<uf2>: the prefix constructor selects the keys whose (single, byte-string) component k
					// has uf1(k) == first argument, uf2(k) == second argument (a structured id such as ctx||batch||...)
					kv := strings.SplitN(fs[i+1], ":", 2)
					if len(kv) == 2 {
						if fd.PrefixBy == nil {
							fd.PrefixBy = map[string][]string{}
						}
						fd.PrefixBy[kv[0]] = strings.Split(kv[1], "+")
					}
				case "fixedlen":
					// key components (0-based) of string / byte type whose encoded length is fixed (declared assumption,
					// e.g. a bech32 account address of this chain): the key-layout audit treats them as self-delimiting
					for _, x := range strings.Split(fs[i+1], ",") {
						if n, err := strconv.Atoi(x); err == nil {
							fd.FixedLen = append(fd.FixedLen, n)
						}
					}
				case "slice":
					if fd.Slices == nil {
						fd.Slices = map[string]int{}
					}
					for _, sp := range strings.Split(fs[i+1], ",") {
						kv := strings.SplitN(sp, "=", 2)
						if len(kv) == 2 {
							n, _ := strconv.Atoi(kv[1])
							fd.Slices[kv[0]] = n
						}
					}
				default:
					return nil, perr(fmt.Errorf("unknown family attribute %s", fs[i]))
				}
			}
			sf.Families = append(sf.Families, fd)
		case "deflemma", "axiom":
			// deflemma name(a Int, b Int)
			head := rc.text
			p := strings.Index(head, "(")
			if p < 0 {
				return nil, perr(fmt.Errorf("lemma needs params"))
			}
			l := &LemmaDecl{Name: strings.TrimSpace(head[:p]), Axiom: rc.kw == "axiom"}
			ps := strings.TrimSuffix(strings.TrimSpace(head[p+1:]), ")")
			for _, x := range strings.Split(ps, ",") {
				x = strings.TrimSpace(x)
				if x == "" {
					continue
				}
				f := strings.Fields(x)
				pm := Param{Name: f[0], Sort: "Int"}
				if len(f) > 1 {
					pm.Sort = f[1]
				}
				l.Params = append(l.Params, pm)
			}
			sf.Lemmas = append(sf.Lemmas, l)
			curLemma = l
			cur = nil
		default:
			if cur == nil && curLemma == nil {
				return nil, perr(fmt.Errorf("clause %s outside func/lemma", rc.kw))
			}
			if curLemma != nil {
				lab, rest := splitLabel(rc.text)
				e, err := ParseExpr(rest)
				if err != nil {
					return nil, perr(err)
				}
				c := &Clause{Label: lab, Expr: e, Src: rest, Line: rc.line}
				switch rc.kw {
				case "requires":
					curLemma.Requires = append(curLemma.Requires, c)
				case "ensures":
					curLemma.Ensures = append(curLemma.Ensures, c)
				default:
					return nil, perr(fmt.Errorf("clause %s not allowed in lemma", rc.kw))
				}
				continue
			}
			switch rc.kw {
			case "property":
				for _, p := range strings.Split(rc.text, ",") {
					if p = strings.TrimSpace(p); p != "" {
						cur.Properties = append(cur.Properties, p)
					}
				}
			case "returns":
				t := strings.Trim(rc.text, "() ")
				for _, p := range strings.Split(t, ",") {
					if p = strings.TrimSpace(p); p != "" {
						cur.Returns = append(cur.Returns, p)
					}
				}
			case "requires", "ensures":
				var cprops []string
				if strings.HasPrefix(rc.text, "@") {
					j := strings.IndexAny(rc.text, " \t")
					if j > 0 {
						for _, p := range strings.Split(rc.text[1:j], ",") {
							cprops = append(cprops, strings.TrimSpace(p))
						}
						rc.text = strings.TrimSpace(rc.text[j:])
					}
				}
				lab, rest := splitLabel(rc.text)
				e, err := ParseExpr(rest)
				if err != nil {
					return nil, perr(err)
				}
				c := &Clause{Label: lab, Expr: e, Src: rest, Line: rc.line, Props: cprops}
				if rc.kw == "requires" {
					if c.Label == "" {
						c.Label = fmt.Sprintf("r%d", len(cur.Requires)+1)
					}
					cur.Requires = append(cur.Requires, c)
				} else {
					if c.Label == "" {
						c.Label = fmt.Sprintf("e%d", len(cur.Ensures)+1)
					}
					cur.Ensures = append(cur.Ensures, c)
				}
			case "invariant":
				// invariant #k label: expr
				t := rc.text
				loop := 1
				fnq := ""
				if strings.HasPrefix(t, "@") { // invariant @Func$1 #k label: expr  - only for loops of that function
					j := strings.IndexAny(t, " \t")
					fnq = t[1:j]
					t = strings.TrimSpace(t[j:])
				}
				if strings.HasPrefix(t, "#") {
					j := strings.IndexAny(t, " \t")
					n, err := strconv.Atoi(t[1:j])
					if err != nil {
						return nil, perr(err)
					}
					loop = n
					t = strings.TrimSpace(t[j:])
				}
				lab, rest := splitLabel(t)
				e, err := ParseExpr(rest)
				if err != nil {
					return nil, perr(err)
				}
				if lab == "" {
					lab = fmt.Sprintf("i%d", len(cur.Invariants)+1)
				}
				cur.Invariants = append(cur.Invariants, &Clause{Label: lab, Expr: e, Src: rest, Loop: loop, Line: rc.line, Fn: fnq})
			case "let":
				eq := strings.Index(rc.text, "=")
				if eq < 0 {
					return nil, perr(fmt.Errorf("let needs ="))
				}
				e, err := ParseExpr(rc.text[eq+1:])
				if err != nil {
					return nil, perr(err)
				}
				cur.Lets = append(cur.Lets, &Clause{Label: strings.TrimSpace(rc.text[:eq]), Expr: e, Src: rc.text, Line: rc.line})
			case "modifies":
				for _, p := range strings.Split(rc.text, ",") {
					if p = strings.TrimSpace(p); p != "" {
						if p == "*" {
							cur.ModAll = true
						} else {
							cur.Modifies = append(cur.Modifies, p)
						}
					}
				}
			case "nopanic":
				cur.NoPanic = true
				for _, p := range strings.Split(rc.text, ",") {
					if p = strings.TrimSpace(p); p != "" {
						cur.NoPanicFor = append(cur.NoPanicFor, p)
					}
				}
			case "inline":
				cur.Inline = true
			case "trusted":
				cur.Trusted = true
			case "pure":
				cur.Pure = true
			case "bound":
				cur.Bounds = append(cur.Bounds, rc.text)
			case "split":
				// split <expr> in <lo>..<hi>
				i := strings.LastIndex(rc.text, " in ")
				if i < 0 {
					return nil, perr(fmt.Errorf("split <expr> in lo..hi"))
				}
				e, err := ParseExpr(rc.text[:i])
				if err != nil {
					return nil, perr(err)
				}
				var lo, hi int64
				if _, err := fmt.Sscanf(strings.TrimSpace(rc.text[i+4:]), "%d..%d", &lo, &hi); err != nil {
					return nil, perr(err)
				}
				cur.Split, cur.SplitLo, cur.SplitHi = e, lo, hi
			case "lemma":
				// lemma @anchor name(args)
				t := rc.text
				anchor := "return"
				if strings.HasPrefix(t, "@") {
					j := strings.IndexAny(t, " \t")
					anchor = t[1:j]
					t = strings.TrimSpace(t[j:])
				}
				var guard *Expr
				if gi := strings.Index(t, ") if "); gi >= 0 {
					g, err := ParseExpr(t[gi+5:])
					if err != nil {
						return nil, perr(err)
					}
					guard = g
					t = t[:gi+1]
				}
				e, err := ParseExpr(t)
				if err != nil {
					return nil, perr(err)
				}
				if e.Kind != "call" {
					return nil, perr(fmt.Errorf("lemma use must be a call"))
				}
				cur.Lemmas = append(cur.Lemmas, &LemmaUse{Anchor: anchor, Name: e.Name, Args: e.Args, Guard: guard, Line: rc.line})
			case "uses":
				e, err := ParseExpr(rc.text)
				if err != nil {
					return nil, perr(err)
				}
				if e.Kind != "call" {
					return nil, perr(fmt.Errorf("uses name(sample args)"))
				}
				cur.Uses = append(cur.Uses, &LemmaUse{Anchor: "entry", Name: e.Name, Args: e.Args, Line: rc.line})
			case "witness":
				lab, rest := splitLabel(rc.text)
				e, err := ParseExpr(rest)
				if err != nil {
					return nil, perr(err)
				}
				cur.Witness = append(cur.Witness, &Clause{Label: lab, Expr: e, Src: rest, Line: rc.line})
			case "by":
				// by <label>: src1, src2, ...
				i := strings.Index(rc.text, ":")
				if i < 0 {
					return nil, perr(fmt.Errorf("by: expected 'label: sources'"))
				}
				h := &Hint{Label: strings.TrimSpace(rc.text[:i])}
				for _, f := range strings.Split(rc.text[i+1:], ",") {
					if f = strings.TrimSpace(f); f != "" {
						h.From = append(h.From, f)
					}
				}
				cur.Hints = append(cur.Hints, h)
			case "assert":
				t := rc.text
				anchor := "return"
				if strings.HasPrefix(t, "@") {
					j := strings.IndexAny(t, " \t")
					anchor = t[1:j]
					t = strings.TrimSpace(t[j:])
				}
				e, err := ParseExpr(t)
				if err != nil {
					return nil, perr(err)
				}
				cur.Asserts = append(cur.Asserts, &Clause{Label: anchor, Expr: e, Src: t, Line: rc.line})
			}
		}
	}
	return sf, nil
}

func splitLabel(s string) (string, string) {
	s = strings.TrimSpace(s)
	// label is an identifier followed by ':' (not ':=')
	for i, c := range s {
		if c == ':' {
			if i+1 < len(s) && s[i+1] == '=' {
				return "", s
			}
			lab := s[:i]
			ok := lab != ""
			for _, d := range lab {
				if !(d >= 'a' && d <= 'z' || d >= 'A' && d <= 'Z' || d >= '0' && d <= '9' || d == '_' || d == '-') {
					ok = false
				}
			}
			if ok {
				return lab, strings.TrimSpace(s[i+1:])
			}
			return "", s
		}
		if !(c >= 'a' && c <= 'z' || c >= 'A' && c <= 'Z' || c >= '0' && c <= '9' || c == '_' || c == '-') {
			return "", s
		}
	}
	return "", s
}

// ---------------------------------------------------------------------------------------
// Expressions

type Expr struct {
	Kind string // num, str, id, call, field, index, unop, binop, old, bool
	Name string // id / call name / field name / operator
	Num  *big.Int
	Str  string
	Args []*Expr
	Pos  int
}

func (e *Expr) String() string {
	switch e.Kind {
	case "num":
		return e.Num.String()
	case "str":
		return strconv.Quote(e.Str)
	case "id", "bool":
		return e.Name
	case "call":
		var as []string
		for _, a := range e.Args {
			as = append(as, a.String())
		}
		return e.Name + "(" + strings.Join(as, ", ") + ")"
	case "field":
		return e.Args[0].String() + "." + e.Name
	case "index":
		var as []string
		for _, a := range e.Args[1:] {
			as = append(as, a.String())
		}
		return e.Args[0].String() + "[" + strings.Join(as, ", ") + "]"
	case "unop":
		return e.Name + e.Args[0].String()
	case "binop":
		return "(" + e.Args[0].String() + " " + e.Name + " " + e.Args[1].String() + ")"
	case "old":
		return "old(" + e.Args[0].String() + ")"
	}
	return "?"
}

type lexTok struct {
	kind string // num, str, id, op, eof
	text string
	pos  int
}

func lex(s string) ([]lexTok, error) {
	var toks []lexTok
	i := 0
	for i < len(s) {
		c := s[i]
		switch {
		case c == ' ' || c == '\t' || c == '\n' || c == '\r':
			i++
		case c >= '0' && c <= '9':
			j := i
			for j < len(s) && (s[j] >= '0' && s[j] <= '9' || s[j] == '_') {
				j++
			}
			toks = append(toks, lexTok{"num", strings.ReplaceAll(s[i:j], "_", ""), i})
			i = j
		case c == '"':
			j := i + 1
			for j < len(s) && s[j] != '"' {
				if s[j] == '\\' {
					j++
				}
				j++
			}
			if j >= len(s) {
				return nil, fmt.Errorf("unterminated string")
			}
			u, err := strconv.Unquote(s[i : j+1])
			if err != nil {
				return nil, err
			}
			toks = append(toks, lexTok{"str", u, i})
			i = j + 1
		case c >= 'a' && c <= 'z' || c >= 'A' && c <= 'Z' || c == '_':
			j := i
			for j < len(s) && (s[j] >= 'a' && s[j] <= 'z' || s[j] >= 'A' && s[j] <= 'Z' || s[j] >= '0' && s[j] <= '9' || s[j] == '_' || s[j] == '\'') {
				j++
			}
			toks = append(toks, lexTok{"id", s[i:j], i})
			i = j
		default:
			ops := []string{"<==>", "==>", "::", "==", "!=", "<=", ">=", "&&", "||", ":=", "<", ">", "+", "-", "*", "/", "%", "!", "(", ")", "[", "]", "{", "}", ",", ".", "?", ":"}
			matched := false
			for _, op := range ops {
				if strings.HasPrefix(s[i:], op) {
					toks = append(toks, lexTok{"op", op, i})
					i += len(op)
					matched = true
					break
				}
			}
			if !matched {
				return nil, fmt.Errorf("unexpected character %q at %d", c, i)
			}
		}
	}
	toks = append(toks, lexTok{"eof", "", len(s)})
	return toks, nil
}

type parser struct {
	toks []lexTok
	p    int
}

func ParseExpr(s string) (*Expr, error) {
	toks, err := lex(s)
	if err != nil {
		return nil, err
	}
	ps := &parser{toks: toks}
	e, err := ps.parseIff()
	if err != nil {
		return nil, err
	}
	if ps.peek().kind != "eof" {
		return nil, fmt.Errorf("unexpected %q at %d", ps.peek().text, ps.peek().pos)
	}
	return e, nil
}

func (p *parser) peek() lexTok { return p.toks[p.p] }
func (p *parser) next() lexTok { t := p.toks[p.p]; p.p++; return t }
func (p *parser) isOp(s string) bool {
	t := p.peek()
	return t.kind == "op" && t.text == s
}
func (p *parser) isId(s string) bool {
	t := p.peek()
	return t.kind == "id" && t.text == s
}

func bin(op string, a, b *Expr) *Expr { return &Expr{Kind: "binop", Name: op, Args: []*Expr{a, b}} }

func (p *parser) parseIff() (*Expr, error) {
	// forall x:Sort :: body   /   exists x:Sort :: body
	if p.isId("forall") || p.isId("exists") {
		isExists := p.isId("exists")
		p.next()
		v := p.next()
		if v.kind != "id" {
			return nil, fmt.Errorf("forall: expected variable")
		}
		if !p.isOp(":") {
			return nil, fmt.Errorf("forall: expected ':'")
		}
		p.next()
		srt := p.next()
		if srt.kind != "id" {
			return nil, fmt.Errorf("forall: expected sort")
		}
		var trig []*Expr
		if p.isOp("{") {
			p.next()
			for {
				te, err := p.parseIff()
				if err != nil {
					return nil, err
				}
				trig = append(trig, te)
				if p.isOp(",") {
					p.next()
					continue
				}
				break
			}
			if !p.isOp("}") {
				return nil, fmt.Errorf("forall: expected '}' after triggers")
			}
			p.next()
		}
		if !p.isOp("::") {
			return nil, fmt.Errorf("forall: expected '::'")
		}
		p.next()
		body, err := p.parseIff()
		if err != nil {
			return nil, err
		}
		q := &Expr{Kind: "forall", Name: v.text, Str: srt.text, Args: append([]*Expr{body}, trig...)}
		if isExists {
			// exists x. b  ==  !(forall x. !b)
			q.Args = []*Expr{{Kind: "unop", Name: "!", Args: []*Expr{body}}}
			return &Expr{Kind: "unop", Name: "!", Args: []*Expr{q}}, nil
		}
		return q, nil
	}
	l, err := p.parseImp()
	if err != nil {
		return nil, err
	}
	for p.isOp("<==>") {
		p.next()
		r, err := p.parseImp()
		if err != nil {
			return nil, err
		}
		l = bin("<==>", l, r)
	}
	return l, nil
}

func (p *parser) parseImp() (*Expr, error) {
	l, err := p.parseOr()
	if err != nil {
		return nil, err
	}
	if p.isOp("==>") {
		p.next()
		r, err := p.parseImp()
		if err != nil {
			return nil, err
		}
		return bin("==>", l, r), nil
	}
	return l, nil
}

func (p *parser) parseOr() (*Expr, error) {
	l, err := p.parseAnd()
	if err != nil {
		return nil, err
	}
	for p.isOp("||") {
		p.next()
		r, err := p.parseAnd()
		if err != nil {
			return nil, err
		}
		l = bin("||", l, r)
	}
	return l, nil
}

func (p *parser) parseAnd() (*Expr, error) {
	l, err := p.parseCmp()
	if err != nil {
		return nil, err
	}
	for p.isOp("&&") {
		p.next()
		r, err := p.parseCmp()
		if err != nil {
			return nil, err
		}
		l = bin("&&", l, r)
	}
	return l, nil
}

func (p *parser) parseCmp() (*Expr, error) {
	l, err := p.parseAdd()
	if err != nil {
		return nil, err
	}
	// chained comparisons a <= b < c
	var conj *Expr
	for {
		t := p.peek()
		if t.kind == "op" && (t.text == "==" || t.text == "!=" || t.text == "<" || t.text == "<=" || t.text == ">" || t.text == ">=") {
			p.next()
			r, err := p.parseAdd()
			if err != nil {
				return nil, err
			}
			c := bin(t.text, l, r)
			if conj == nil {
				conj = c
			} else {
				conj = bin("&&", conj, c)
			}
			l = r
			continue
		}
		break
	}
	if conj != nil {
		return conj, nil
	}
	return l, nil
}

func (p *parser) parseAdd() (*Expr, error) {
	l, err := p.parseMul()
	if err != nil {
		return nil, err
	}
	for p.isOp("+") || p.isOp("-") {
		op := p.next().text
		r, err := p.parseMul()
		if err != nil {
			return nil, err
		}
		l = bin(op, l, r)
	}
	return l, nil
}

func (p *parser) parseMul() (*Expr, error) {
	l, err := p.parseUnary()
	if err != nil {
		return nil, err
	}
	for p.isOp("*") || p.isOp("/") || p.isOp("%") || p.isId("div") || p.isId("mod") {
		op := p.next().text
		r, err := p.parseUnary()
		if err != nil {
			return nil, err
		}
		l = bin(op, l, r)
	}
	return l, nil
}

func (p *parser) parseUnary() (*Expr, error) {
	if p.isOp("!") || p.isOp("-") {
		op := p.next().text
		e, err := p.parseUnary()
		if err != nil {
			return nil, err
		}
		return &Expr{Kind: "unop", Name: op, Args: []*Expr{e}}, nil
	}
	return p.parsePostfix()
}

func (p *parser) parsePostfix() (*Expr, error) {
	e, err := p.parsePrimary()
	if err != nil {
		return nil, err
	}
	for {
		if p.isOp(".") {
			p.next()
			t := p.next()
			if t.kind != "id" {
				return nil, fmt.Errorf("expected field name at %d", t.pos)
			}
			// qualified call pkg.Func(...) or method-like
			if p.isOp("(") && e.Kind == "id" {
				args, err := p.parseArgs()
				if err != nil {
					return nil, err
				}
				e = &Expr{Kind: "call", Name: e.Name + "." + t.text, Args: args}
				continue
			}
			e = &Expr{Kind: "field", Name: t.text, Args: []*Expr{e}}
			continue
		}
		if p.isOp("[") {
			p.next()
			args := []*Expr{e}
			for {
				a, err := p.parseIff()
				if err != nil {
					return nil, err
				}
				args = append(args, a)
				if p.isOp(",") {
					p.next()
					continue
				}
				break
			}
			if !p.isOp("]") {
				return nil, fmt.Errorf("expected ] at %d", p.peek().pos)
			}
			p.next()
			e = &Expr{Kind: "index", Args: args}
			continue
		}
		break
	}
	return e, nil
}

func (p *parser) parseArgs() ([]*Expr, error) {
	if !p.isOp("(") {
		return nil, fmt.Errorf("expected (")
	}
	p.next()
	var args []*Expr
	if p.isOp(")") {
		p.next()
		return args, nil
	}
	for {
		a, err := p.parseIff()
		if err != nil {
			return nil, err
		}
		args = append(args, a)
		if p.isOp(",") {
			p.next()
			continue
		}
		break
	}
	if !p.isOp(")") {
		return nil, fmt.Errorf("expected ) at %d, got %q", p.peek().pos, p.peek().text)
	}
	p.next()
	return args, nil
}

func (p *parser) parsePrimary() (*Expr, error) {
	t := p.next()
	switch t.kind {
	case "num":
		n, ok := new(big.Int).SetString(t.text, 10)
		if !ok {
			return nil, fmt.Errorf("bad number %s", t.text)
		}
		return &Expr{Kind: "num", Num: n}, nil
	case "str":
		return &Expr{Kind: "str", Str: t.text}, nil
	case "id":
		if t.text == "true" || t.text == "false" {
			return &Expr{Kind: "bool", Name: t.text}, nil
		}
		if p.isOp("(") {
			args, err := p.parseArgs()
			if err != nil {
				return nil, err
			}
			if t.text == "old" {
				if len(args) != 1 {
					return nil, fmt.Errorf("old takes one argument")
				}
				return &Expr{Kind: "old", Args: args}, nil
			}
			return &Expr{Kind: "call", Name: t.text, Args: args}, nil
		}
		return &Expr{Kind: "id", Name: t.text}, nil
	case "op":
		if t.text == "(" {
			e, err := p.parseIff()
			if err != nil {
				return nil, err
			}
			if !p.isOp(")") {
				return nil, fmt.Errorf("expected ) at %d", p.peek().pos)
			}
			p.next()
			return e, nil
		}
	}
	return nil, fmt.Errorf("unexpected lexTok %q at %d", t.text, t.pos)
}
