package main

// math/big: *big.Int is a mathematical integer (cells hold Int terms), *big.Rat a real.

func (x *Exec) bigResult(st *State, c *CallInfo, v *Term) Val {
	if pv, ok := c.Args[0].(*PtrVal); ok {
		x.store(st, pv, v)
		return pv
	}
	return v
}

func init() {
	const pB = "(*math/big.Int)."
	theory["math/big.NewInt"] = func(x *Exec, f *Frame, st *State, c *CallInfo) Val { return c.T(0) }
	bin := func(op func(a, b *Term) *Term) TheoryFn {
		return func(x *Exec, f *Frame, st *State, c *CallInfo) Val {
			return x.bigResult(st, c, op(c.T(1), c.T(2)))
		}
	}
	theory[pB+"Add"] = bin(Add)
	theory[pB+"Sub"] = bin(Sub)
	theory[pB+"Mul"] = bin(Mul)
	divLike := func(name string, op func(a, b *Term) *Term) TheoryFn {
		return func(x *Exec, f *Frame, st *State, c *CallInfo) Val {
			x.panicSite(f, st, Eq(c.T(2), IntLit(0)), "big.Int."+name+" division by zero at "+c.Pos)
			return x.bigResult(st, c, op(c.T(1), c.T(2)))
		}
	}
	theory[pB+"Div"] = divLike("Div", EDiv)
	theory[pB+"Mod"] = divLike("Mod", EMod)
	theory[pB+"Quo"] = divLike("Quo", TDiv)
	theory[pB+"Rem"] = divLike("Rem", TRem)
	theory[pB+"Exp"] = func(x *Exec, f *Frame, st *State, c *CallInfo) Val {
		b, e := c.T(1), c.T(2)
		_, mNil := c.Args[3].(*NilPtr)
		if mt, ok := c.Args[3].(*Term); ok && mt.IsLit() && mt.Lit.Sign() == 0 {
			mNil = true // nil *big.Int (and m == 0) mean "no modulus"
		}
		if b != nil && e != nil && mNil && b.IsLit() && b.Lit.IsInt64() && b.Lit.Int64() == 10 {
			return x.bigResult(st, c, pow10Term(e))
		}
		if b != nil && e != nil && mNil {
			return x.bigResult(st, c, UF("int_pow", SInt, b, e))
		}
		return x.bigResult(st, c, x.freshTerm("bigexp", SInt))
	}
	theory[pB+"SetBytes"] = func(x *Exec, f *Frame, st *State, c *CallInfo) Val {
		b := x.asBytes(st, c.Args[1])
		if b == nil {
			return x.bigResult(st, c, x.freshTerm("bigbytes", SInt))
		}
		v := UF("bytes_to_int", SInt, b)
		st.assume(Ge(v, IntLit(0)))
		return x.bigResult(st, c, v)
	}
	theory[pB+"Bytes"] = func(x *Exec, f *Frame, st *State, c *CallInfo) Val {
		return UF("int_to_bytes", SBytes, c.T(0))
	}
	theory[pB+"Set"] = func(x *Exec, f *Frame, st *State, c *CallInfo) Val { return x.bigResult(st, c, c.T(1)) }
	theory[pB+"SetInt64"] = theory[pB+"Set"]
	theory[pB+"SetUint64"] = theory[pB+"Set"]
	theory[pB+"Int64"] = func(x *Exec, f *Frame, st *State, c *CallInfo) Val { return x.wrapMod(c.T(0), c.ResTyp) }
	theory[pB+"Uint64"] = theory[pB+"Int64"]
	theory[pB+"Sign"] = func(x *Exec, f *Frame, st *State, c *CallInfo) Val {
		v := c.T(0)
		return Ite(Gt(v, IntLit(0)), IntLit(1), Ite(Lt(v, IntLit(0)), IntLit(-1), IntLit(0)))
	}
	theory[pB+"Cmp"] = func(x *Exec, f *Frame, st *State, c *CallInfo) Val {
		a, b := c.T(0), c.T(1)
		return Ite(Gt(a, b), IntLit(1), Ite(Lt(a, b), IntLit(-1), IntLit(0)))
	}
	theory[pB+"String"] = func(x *Exec, f *Frame, st *State, c *CallInfo) Val { return UF("int_to_str", SStr, c.T(0)) }
	const pR = "(*math/big.Rat)."
	theory[pR+"SetFrac"] = func(x *Exec, f *Frame, st *State, c *CallInfo) Val {
		a, b := c.T(1), c.T(2)
		x.panicSite(f, st, Eq(b, IntLit(0)), "big.Rat.SetFrac zero denominator at "+c.Pos)
		v := App("/", SReal, App("to_real", SReal, a), App("to_real", SReal, b))
		if pv, ok := c.Args[0].(*PtrVal); ok {
			x.store(st, pv, v)
			return pv
		}
		return v
	}
	ratStr := func(x *Exec, f *Frame, st *State, c *CallInfo) Val {
		var r *Term
		if pv, ok := c.Args[0].(*PtrVal); ok {
			r, _ = x.load(st, pv).(*Term)
		} else {
			r, _ = c.Args[0].(*Term)
		}
		if r == nil {
			return x.freshTerm("ratstr", SStr)
		}
		if len(c.Args) > 1 && c.T(1) != nil {
			return UF("rat_float_string", SStr, r, c.T(1))
		}
		return UF("rat_string", SStr, r)
	}
	theory[pR+"FloatString"] = ratStr
	theory[pR+"String"] = ratStr
}
