package main

import (
	"bytes"
	"encoding/json"
	"fmt"
	"go/types"
	"math/big"
	"os"
	"os/exec"
	"path/filepath"
	"regexp"
	"strings"
	"time"
)

// writeReplay writes the replay file for a failed obligation and returns the suffix of the VIOLATION line.
func writeReplay(path string, cfg *PropConfig, r *NamedResult, repo, verif string) string {
	rec := map[string]interface{}{
		"property":   cfg.ID,
		"obligation": r.Name,
		"kind":       r.Kind,
		"status":     r.Status,
		"clause":     r.Src,
	}
	suffix := " no-failing-input-found"
	if r.Failing != nil {
		rec["site"] = r.Failing.Site
		rec["clause"] = r.Failing.Src
		if r.Failing.Res != nil {
			rec["solver_status"] = r.Failing.Res.Status
			rec["solver"] = r.Failing.Res.Solver
			rec["solver_output"] = firstLines(r.Failing.Res.Output, 60)
			rec["per_solver"] = r.Failing.Res.All
			if len(r.Failing.Res.Model) > 0 {
				rec["model"] = r.Failing.Res.Model
				status, detail := tryReplay(cfg, r, repo, verif, rec)
				rec["replay_status"] = status
				rec["replay_detail"] = detail
				if status == "confirmed" {
					suffix = ""
				}
			}
		}
	}
	b, _ := json.MarshalIndent(rec, "", " ")
	os.WriteFile(path, b, 0o644)
	return suffix
}

// ---------------------------------------------------------------------------------------
// concrete values

type cDec struct {
	Nil bool
	Raw *big.Int
}
type cCoin struct {
	Denom  string
	Amount *big.Int
}
type cStruct struct{ Fields map[string]interface{} }

var strValRe = regexp.MustCompile(`^Str!val!(\d+)$`)

func modelStr(v string) string {
	if m := strValRe.FindStringSubmatch(v); m != nil {
		return "denom" + m[1]
	}
	if strings.HasPrefix(v, "|str:") {
		var s string
		fmt.Sscanf(strings.Trim(v, "|")[4:], "%q", &s)
		return s
	}
	return "s" + sanitizeFile(v)
}

func modelInt(m map[string]string, key string) (*big.Int, bool) {
	v, ok := m[key]
	if !ok {
		return nil, false
	}
	s, ok := smtIntValue(v)
	if !ok {
		return nil, false
	}
	b, ok := new(big.Int).SetString(s, 10)
	return b, ok
}

// concreteParam builds the Go expression and the concrete value of a parameter from the model.
func concreteParam(m map[string]string, term string, t types.Type) (string, interface{}, bool) {
	return concreteParamPkg(m, term, t, nil)
}

func concreteParamPkg(m map[string]string, term string, t types.Type, home *types.Package) (string, interface{}, bool) {
	t = types.Unalias(t)
	if n, ok := t.(*types.Named); ok {
		if stt, ok := n.Underlying().(*types.Struct); ok && home != nil && n.Obj().Pkg() == home {
			if srt := SortOf(t); srt != nil && srt.Kind == KData && srt != SCoin && srt != SDec {
				var parts []string
				cs := cStruct{Fields: map[string]interface{}{}}
				for i := 0; i < stt.NumFields(); i++ {
					f := stt.Field(i)
					if !f.Exported() {
						continue
					}
					sub := "(" + selName(srt.Name, f.Name()) + " " + term + ")"
					ex, val, ok := concreteParamPkg(m, sub, f.Type(), home)
					if !ok {
						return "", nil, false
					}
					parts = append(parts, f.Name()+": "+ex)
					cs.Fields[f.Name()] = val
				}
				return n.Obj().Name() + "{" + strings.Join(parts, ", ") + "}", cs, true
			}
		}
	}
	switch namedPath(t) {
	case "cosmossdk.io/math.Int":
		b, ok := modelInt(m, term)
		if !ok {
			b = big.NewInt(0)
		}
		return fmt.Sprintf("vrInt(%q)", b.String()), b, true
	case "cosmossdk.io/math.LegacyDec":
		isn := m["(Dec.isnil "+term+")"] == "true"
		raw, ok := modelInt(m, "(Dec.raw "+term+")")
		if !ok {
			raw = big.NewInt(0)
		}
		if isn {
			return "sdkmath.LegacyDec{}", cDec{Nil: true, Raw: big.NewInt(0)}, true
		}
		return fmt.Sprintf("sdkmath.LegacyNewDecFromBigIntWithPrec(vrBig(%q), 18)", raw.String()), cDec{Raw: raw}, true
	case "github.com/cosmos/cosmos-sdk/types.Coin":
		d := modelStr(m["(Coin.Denom "+term+")"])
		if m["(denom_valid (Coin.Denom "+term+"))"] == "false" {
			d = "!"
		}
		a, ok := modelInt(m, "(Coin.Amount "+term+")")
		if !ok {
			a = big.NewInt(0)
		}
		return fmt.Sprintf("sdk.Coin{Denom: %q, Amount: vrInt(%q)}", d, a.String()), cCoin{d, a}, true
	}
	switch u := t.Underlying().(type) {
	case *types.Basic:
		switch {
		case u.Info()&types.IsBoolean != 0:
			return m[term], m[term] == "true", true
		case u.Info()&types.IsInteger != 0:
			b, ok := modelInt(m, term)
			if !ok {
				b = big.NewInt(0)
			}
			return fmt.Sprintf("%s(%s)", types.TypeString(t, func(p *types.Package) string { return p.Name() }), b.String()), b, true
		case u.Info()&types.IsString != 0:
			s := modelStr(m[term])
			if m["(denom_valid "+term+")"] == "false" {
				s = "!"
			}
			if m["(str_len "+term+")"] == "0" {
				s = ""
			}
			return fmt.Sprintf("%q", s), s, true
		}
	}
	return "", nil, false
}

func resultPrinter(i int, t types.Type) (string, bool) {
	v := fmt.Sprintf("r%d", i)
	t = types.Unalias(t)
	switch namedPath(t) {
	case "cosmossdk.io/math.Int":
		return fmt.Sprintf(`fmt.Println("VR_RESULT", %d, "int", %s.String())`, i, v), true
	case "cosmossdk.io/math.LegacyDec":
		return fmt.Sprintf(`if %s.IsNil() { fmt.Println("VR_RESULT", %d, "dec", "nil") } else { fmt.Println("VR_RESULT", %d, "dec", %s.BigInt().String()) }`, v, i, i, v), true
	}
	if types.Identical(t, types.Universe.Lookup("error").Type()) {
		return fmt.Sprintf(`fmt.Println("VR_RESULT", %d, "err", %s != nil)`, i, v), true
	}
	if b, ok := t.Underlying().(*types.Basic); ok {
		switch {
		case b.Info()&types.IsInteger != 0:
			return fmt.Sprintf(`fmt.Println("VR_RESULT", %d, "int", %s)`, i, v), true
		case b.Info()&types.IsBoolean != 0:
			return fmt.Sprintf(`fmt.Println("VR_RESULT", %d, "bool", %s)`, i, v), true
		}
	}
	return "", false
}

func tryReplay(cfg *PropConfig, r *NamedResult, repo, verif string, rec map[string]interface{}) (string, string) {
	o := r.Failing
	if o == nil || o.prog == nil {
		return "not-attempted", "no program"
	}
	p := o.prog
	ukey := o.Unit
	if i := strings.Index(ukey, ":"); i >= 0 {
		ukey = ukey[i+1:]
	}
	fn := p.findFunc(ukey)
	c := p.contracts[ukey]
	if fn == nil || c == nil {
		return "not-attempted", "obligation is not attached to a function under contract"
	}
	if fn.Signature.Recv() != nil {
		// only value receivers that are plain data could be supported; keep to free functions and data receivers
	}
	model := o.Res.Model
	var argExprs []string
	env := map[string]interface{}{}
	for _, prm := range fn.Params {
		ex, val, ok := concreteParamPkg(model, "in_"+prm.Name(), prm.Type(), fn.Pkg.Pkg)
		if !ok {
			return "not-attempted", fmt.Sprintf("parameter %s of type %s cannot be rebuilt from a model (keeper/world functions have no replay harness)", prm.Name(), prm.Type())
		}
		argExprs = append(argExprs, ex)
		env[prm.Name()] = val
	}
	var printers []string
	var rnames []string
	res := fn.Signature.Results()
	for i := 0; i < res.Len(); i++ {
		pr, ok := resultPrinter(i, res.At(i).Type())
		if !ok {
			return "not-attempted", fmt.Sprintf("result type %s not printable", res.At(i).Type())
		}
		printers = append(printers, pr)
		rnames = append(rnames, fmt.Sprintf("r%d", i))
	}
	call := fn.Name() + "(" + strings.Join(argExprs, ", ") + ")"
	if recv := fn.Signature.Recv(); recv != nil {
		if len(argExprs) == 0 {
			return "not-attempted", "method receiver missing"
		}
		call = "(" + argExprs[0] + ")." + fn.Name() + "(" + strings.Join(argExprs[1:], ", ") + ")"
	}
	pkgDir := ""
	for _, pk := range p.pkgs {
		if pk.Types == fn.Pkg.Pkg && len(pk.GoFiles) > 0 {
			pkgDir = filepath.Dir(pk.GoFiles[0])
		}
	}
	if pkgDir == "" {
		return "not-attempted", "package directory not found"
	}
	testName := "TestVerifReplay" + fmt.Sprint(time.Now().UnixNano()%1000000)
	var src bytes.Buffer
	fmt.Fprintf(&src, "package %s\n\nimport (\n\t\"fmt\"\n\t\"math/big\"\n\t\"testing\"\n\n\tsdkmath \"cosmossdk.io/math\"\n\tsdk \"github.com/cosmos/cosmos-sdk/types\"\n)\n\n", fn.Pkg.Pkg.Name())
	fmt.Fprintf(&src, "var _ = sdk.Coin{}\nvar _ = big.NewInt\nvar _ = sdkmath.NewInt\n\n")
	fmt.Fprintf(&src, "func vrBig(s string) *big.Int { b, _ := new(big.Int).SetString(s, 10); return b }\nfunc vrInt(s string) sdkmath.Int { i, _ := sdkmath.NewIntFromString(s); return i }\n\n")
	fmt.Fprintf(&src, "func %s(t *testing.T) {\n\tdefer func() {\n\t\tif r := recover(); r != nil {\n\t\t\tfmt.Println(\"VR_PANIC\", r)\n\t\t}\n\t}()\n", testName)
	if len(rnames) > 0 {
		fmt.Fprintf(&src, "\t%s := %s\n", strings.Join(rnames, ", "), call)
	} else {
		fmt.Fprintf(&src, "\t%s\n", call)
	}
	for _, pr := range printers {
		fmt.Fprintf(&src, "\t%s\n", pr)
	}
	fmt.Fprintf(&src, "\tfmt.Println(\"VR_DONE\")\n}\n")
	tmp, err := os.MkdirTemp("", "govc-replay-")
	if err != nil {
		return "not-attempted", err.Error()
	}
	defer os.RemoveAll(tmp)
	testFile := filepath.Join(tmp, "zz_verif_replay_test.go")
	os.WriteFile(testFile, src.Bytes(), 0o644)
	ov := map[string]interface{}{"Replace": map[string]string{filepath.Join(pkgDir, "zz_verif_replay_test.go"): testFile}}
	ovb, _ := json.Marshal(ov)
	ovFile := filepath.Join(tmp, "overlay.json")
	os.WriteFile(ovFile, ovb, 0o644)
	cmd := exec.Command("go", "test", "-overlay", ovFile, "-vet=off", "-count=1", "-timeout", "60s", "-run", "^"+testName+"$", "-v", ".")
	cmd.Dir = pkgDir
	cmd.Env = append(os.Environ(), "GOFLAGS=-mod=mod", "GOPROXY=off", "GOSUMDB=off", "GOTOOLCHAIN=local")
	var out bytes.Buffer
	cmd.Stdout = &out
	cmd.Stderr = &out
	runErr := cmd.Run()
	output := out.String()
	rec["replay_call"] = call
	rec["replay_test"] = src.String()
	rec["replay_pkgdir"] = pkgDir
	if !strings.Contains(output, "VR_DONE") && !strings.Contains(output, "VR_PANIC") {
		return "not-attempted", "replay test did not run: " + firstLines(output, 15) + fmt.Sprint(runErr)
	}
	panicked := strings.Contains(output, "VR_PANIC")
	rec["replay_output"] = firstLines(grepLines(output, "VR_"), 10)
	if o.Kind == "nopanic" {
		if panicked {
			return "confirmed", "the real function panics on the model's inputs: " + firstLines(grepLines(output, "VR_PANIC"), 2)
		}
		return "not-reproduced", "the real function does not panic on the model's inputs"
	}
	if panicked {
		return "not-reproduced", "the real function panics on the model's inputs (clause not evaluated): " + firstLines(grepLines(output, "VR_PANIC"), 2)
	}
	// bind results
	names := c.Returns
	for _, line := range strings.Split(output, "\n") {
		f := strings.Fields(line)
		if len(f) < 4 || f[0] != "VR_RESULT" {
			continue
		}
		var idx int
		fmt.Sscan(f[1], &idx)
		var val interface{}
		switch f[2] {
		case "int":
			b, _ := new(big.Int).SetString(f[3], 10)
			val = b
		case "dec":
			if f[3] == "nil" {
				val = cDec{Nil: true, Raw: big.NewInt(0)}
			} else {
				b, _ := new(big.Int).SetString(f[3], 10)
				val = cDec{Raw: b}
			}
		case "bool":
			val = f[3] == "true"
		case "err":
			val = errVal{NonNil: f[3] == "true"}
		}
		n := fmt.Sprintf("result%d", idx)
		if idx < len(names) {
			n = names[idx]
		} else if rn := res.At(idx).Name(); rn != "" {
			n = rn
		} else if f[2] == "err" {
			n = "err"
		}
		env[n] = val
		if idx == 0 {
			env["result"] = val
		}
	}
	ce := &concEval{prog: p, env: env}
	for _, l := range c.Lets {
		v, err := ce.eval(l.Expr)
		if err != nil {
			return "not-attempted", "cannot evaluate let " + l.Label + " concretely: " + err.Error()
		}
		env[l.Label] = v
	}
	// find the clause
	var clause *Clause
	switch o.Kind {
	case "post":
		for _, e := range c.Ensures {
			if e.Label == o.Label {
				clause = e
			}
		}
	}
	if clause == nil {
		return "not-attempted", "obligation kind " + o.Kind + " has no concrete clause evaluation"
	}
	// preconditions must hold on the model (otherwise the model is outside the contract)
	for _, rq := range c.Requires {
		v, err := ce.eval(rq.Expr)
		if err != nil {
			return "not-attempted", "cannot evaluate requires concretely: " + err.Error()
		}
		if b, ok := v.(bool); !ok || !b {
			return "not-reproduced", "model does not satisfy precondition " + rq.Label
		}
	}
	v, err := ce.eval(clause.Expr)
	if err != nil {
		return "not-attempted", "cannot evaluate clause concretely: " + err.Error()
	}
	if b, ok := v.(bool); ok && !b {
		return "confirmed", fmt.Sprintf("real function on the model's inputs violates %q: %s", clause.Label, firstLines(grepLines(output, "VR_RESULT"), 4))
	}
	return "not-reproduced", "real function result satisfies the clause on the model's inputs"
}

type errVal struct{ NonNil bool }

func grepLines(s, sub string) string {
	var out []string
	for _, l := range strings.Split(s, "\n") {
		if strings.Contains(l, sub) {
			out = append(out, strings.TrimSpace(l))
		}
	}
	return strings.Join(out, "\n")
}

// ---------------------------------------------------------------------------------------
// concrete evaluation of spec expressions

type concEval struct {
	prog *Program
	env  map[string]interface{}
}

func (ce *concEval) eval(e *Expr) (interface{}, error) {
	switch e.Kind {
	case "num":
		return e.Num, nil
	case "str":
		return e.Str, nil
	case "bool":
		return e.Name == "true", nil
	case "id":
		if v, ok := ce.env[e.Name]; ok {
			return v, nil
		}
		switch e.Name {
		case "DEC_ONE":
			return decOne, nil
		case "nil":
			return nilSpec{}, nil
		case "MAXU64":
			return new(big.Int).Sub(two64, big.NewInt(1)), nil
		}
		if d := ce.prog.defines[e.Name]; d != nil && len(d.Params) == 0 {
			return ce.eval(d.Body)
		}
		return nil, fmt.Errorf("unknown identifier %s", e.Name)
	case "old":
		return ce.eval(e.Args[0])
	case "unop":
		v, err := ce.eval(e.Args[0])
		if err != nil {
			return nil, err
		}
		if e.Name == "!" {
			b, ok := v.(bool)
			if !ok {
				return nil, fmt.Errorf("! on non-bool")
			}
			return !b, nil
		}
		i, ok := v.(*big.Int)
		if !ok {
			return nil, fmt.Errorf("- on non-int")
		}
		return new(big.Int).Neg(i), nil
	case "field":
		b, err := ce.eval(e.Args[0])
		if err != nil {
			return nil, err
		}
		switch s := b.(type) {
		case cCoin:
			if strings.EqualFold(e.Name, "denom") {
				return s.Denom, nil
			}
			return s.Amount, nil
		case cStruct:
			if v, ok := s.Fields[e.Name]; ok {
				return v, nil
			}
		}
		return nil, fmt.Errorf("field %s", e.Name)
	case "binop":
		a, err := ce.eval(e.Args[0])
		if err != nil {
			return nil, err
		}
		// lazy boolean ops
		if ab, ok := a.(bool); ok {
			switch e.Name {
			case "&&":
				if !ab {
					return false, nil
				}
			case "||":
				if ab {
					return true, nil
				}
			case "==>":
				if !ab {
					return true, nil
				}
			}
		}
		b, err := ce.eval(e.Args[1])
		if err != nil {
			return nil, err
		}
		if _, ok := a.(nilSpec); ok {
			a, b = b, a
		}
		if _, ok := b.(nilSpec); ok {
			if ev, ok := a.(errVal); ok {
				switch e.Name {
				case "==":
					return !ev.NonNil, nil
				case "!=":
					return ev.NonNil, nil
				}
			}
			return nil, fmt.Errorf("nil comparison")
		}
		switch av := a.(type) {
		case bool:
			bv, ok := b.(bool)
			if !ok {
				return nil, fmt.Errorf("bool op mismatch")
			}
			switch e.Name {
			case "&&":
				return av && bv, nil
			case "||":
				return av || bv, nil
			case "==>":
				return !av || bv, nil
			case "<==>", "==":
				return av == bv, nil
			case "!=":
				return av != bv, nil
			}
		case string:
			bv, ok := b.(string)
			if !ok {
				return nil, fmt.Errorf("string op mismatch")
			}
			switch e.Name {
			case "==":
				return av == bv, nil
			case "!=":
				return av != bv, nil
			}
		case *big.Int:
			bv, ok := b.(*big.Int)
			if !ok {
				return nil, fmt.Errorf("int op mismatch")
			}
			r := new(big.Int)
			switch e.Name {
			case "+":
				return r.Add(av, bv), nil
			case "-":
				return r.Sub(av, bv), nil
			case "*":
				return r.Mul(av, bv), nil
			case "div":
				if bv.Sign() == 0 {
					return nil, fmt.Errorf("div by zero")
				}
				q, _ := new(big.Int).DivMod(av, bv, new(big.Int))
				return q, nil
			case "mod", "%":
				if bv.Sign() == 0 {
					return nil, fmt.Errorf("mod by zero")
				}
				_, m := new(big.Int).DivMod(av, bv, new(big.Int))
				return m, nil
			case "/":
				if bv.Sign() == 0 {
					return nil, fmt.Errorf("div by zero")
				}
				return r.Quo(av, bv), nil
			case "==":
				return av.Cmp(bv) == 0, nil
			case "!=":
				return av.Cmp(bv) != 0, nil
			case "<":
				return av.Cmp(bv) < 0, nil
			case "<=":
				return av.Cmp(bv) <= 0, nil
			case ">":
				return av.Cmp(bv) > 0, nil
			case ">=":
				return av.Cmp(bv) >= 0, nil
			}
		}
		return nil, fmt.Errorf("operator %s on %T", e.Name, a)
	case "call":
		if d := ce.prog.defines[e.Name]; d != nil && len(d.Params) == len(e.Args) {
			sub := &concEval{prog: ce.prog, env: map[string]interface{}{}}
			for k, v := range ce.env {
				sub.env[k] = v
			}
			for i, prm := range d.Params {
				v, err := ce.eval(e.Args[i])
				if err != nil {
					return nil, err
				}
				sub.env[prm] = v
			}
			return sub.eval(d.Body)
		}
		var args []interface{}
		for _, a := range e.Args {
			v, err := ce.eval(a)
			if err != nil {
				return nil, err
			}
			args = append(args, v)
		}
		ints := func(n int) ([]*big.Int, bool) {
			if len(args) != n {
				return nil, false
			}
			var out []*big.Int
			for _, a := range args {
				i, ok := a.(*big.Int)
				if !ok {
					return nil, false
				}
				out = append(out, i)
			}
			return out, true
		}
		switch e.Name {
		case "ufb":
			if len(args) == 2 {
				if n, ok := args[0].(string); ok && n == "denom_valid" {
					if d, ok := args[1].(string); ok {
						return regexp.MustCompile(`^[a-zA-Z][a-zA-Z0-9/:._-]{2,127}$`).MatchString(d), nil
					}
				}
			}
		case "raw":
			if d, ok := args[0].(cDec); ok {
				return d.Raw, nil
			}
		case "isnil":
			if d, ok := args[0].(cDec); ok {
				return d.Nil, nil
			}
		case "dec":
			if is, ok := ints(1); ok {
				return cDec{Raw: is[0]}, nil
			}
		case "pow10":
			if is, ok := ints(1); ok && is[0].IsInt64() && is[0].Int64() >= 0 && is[0].Int64() < 200 {
				return new(big.Int).Exp(big.NewInt(10), is[0], nil), nil
			}
		case "min":
			if is, ok := ints(2); ok {
				if is[0].Cmp(is[1]) <= 0 {
					return is[0], nil
				}
				return is[1], nil
			}
		case "max":
			if is, ok := ints(2); ok {
				if is[0].Cmp(is[1]) >= 0 {
					return is[0], nil
				}
				return is[1], nil
			}
		case "abs":
			if is, ok := ints(1); ok {
				return new(big.Int).Abs(is[0]), nil
			}
		case "ite":
			if len(args) == 3 {
				if c, ok := args[0].(bool); ok {
					if c {
						return args[1], nil
					}
					return args[2], nil
				}
			}
		case "tdiv":
			if is, ok := ints(2); ok && is[1].Sign() != 0 {
				return new(big.Int).Quo(is[0], is[1]), nil
			}
		}
		return nil, fmt.Errorf("spec function %s not concretely evaluable", e.Name)
	}
	return nil, fmt.Errorf("cannot evaluate %s concretely", e)
}
