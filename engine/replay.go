package main

import (
	"encoding/json"
	"os"
)

// writeReplay writes the replay file for a failed obligation and returns the suffix of the VIOLATION line.
func writeReplay(path string, cfg *PropConfig, r *NamedResult, repo, verif string) string {
	rec := map[string]interface{}{
		"property":   cfg.ID,
		"obligation": r.Name,
		"kind":       r.Kind,
		"status":     r.Status,
		"clause":     r.Src,
	}
	suffix := " no-failing-input-found"
	if r.Failing != nil {
		rec["site"] = r.Failing.Site
		rec["clause"] = r.Failing.Src
		if r.Failing.Res != nil {
			rec["solver_status"] = r.Failing.Res.Status
			rec["solver"] = r.Failing.Res.Solver
			rec["solver_output"] = firstLines(r.Failing.Res.Output, 60)
			rec["per_solver"] = r.Failing.Res.All
			if len(r.Failing.Res.Model) > 0 {
				rec["model"] = r.Failing.Res.Model
				status, detail := tryReplay(cfg, r, repo, verif)
				rec["replay_status"] = status
				rec["replay_detail"] = detail
				if status == "confirmed" {
					suffix = ""
				}
			}
		}
	}
	b, _ := json.MarshalIndent(rec, "", " ")
	os.WriteFile(path, b, 0o644)
	return suffix
}

func tryReplay(cfg *PropConfig, r *NamedResult, repo, verif string) (string, string) {
	return "not-attempted", "no replay harness for this function kind"
}
