package main

import (
	"go/token"
	"go/ast"
	"os"
	"runtime/debug"
	"fmt"
	"go/types"
	"math/big"
	"sort"
	"strings"

	"golang.org/x/tools/go/ssa"
)

type UnitResult struct {
	Unit     *Unit
	Obls     []*Obligation
	Errs     []string
	Inlined  []string
	Assumed  []string
	Unknown  []string
	Paths    int
	Returns  int
	Panics   int
	Vacuity  []*Obligation
	AxiomCheck *Obligation // precondition + axioms in use: must be satisfiable (or at least not refutable)
}

func (p *Program) verifyUnit(u *Unit) *UnitResult {
	c := u.Contract
	if c.Split == nil {
		return p.verifyUnitOnce(u, nil, "")
	}
	var total *UnitResult
	for v := c.SplitLo; v <= c.SplitHi; v++ {
		r := p.verifyUnitOnce(u, big.NewInt(v), fmt.Sprintf("split%d_", v))
		if total == nil {
			total = r
			continue
		}
		total.Obls = append(total.Obls, r.Obls...)
		total.Errs = append(total.Errs, r.Errs...)
		total.Paths += r.Paths
		total.Returns += r.Returns
		total.Panics += r.Panics
		// vacuity: keep the precondition check of each split and all return paths
		if len(r.Vacuity) > 1 {
			total.Vacuity = append(total.Vacuity, r.Vacuity[1:]...)
		}
	}
	return total
}

func (p *Program) verifyUnitOnce(u *Unit, splitVal *big.Int, sitePrefix string) *UnitResult {
	x := &Exec{prog: p, unit: u, maxPaths: 4000, inlined: map[string]bool{}, assumed: map[string]bool{}, unknown: map[string]bool{}, inputs: map[string]*Term{}}
	res := &UnitResult{Unit: u}
	defer func() {
		res.Errs = x.errs
		res.Inlined = sortedKeys(x.inlined)
		res.Assumed = sortedKeys(x.assumed)
		res.Unknown = sortedKeys(x.unknown)
		res.Paths = x.paths
	}()
	fn, c := u.Fn, u.Contract
	st := &State{mem: map[*Obj]Val{}}
	st.world = x.initialWorld(st)
	var args []Val
	for _, prm := range fn.Params {
		v := x.paramVal(st, prm)
		args = append(args, v)
	}
	env := x.contractEnv(st, fn, c, args)
	x.oldWorld = st.world
	entryMem := map[*Obj]Val{}
	for k, v := range st.mem {
		entryMem[k] = v
	}
	env.oldMem = entryMem
	x.evalLets(env, c)
	x.topLets = map[string]Val{}
	for _, l := range c.Lets {
		if v, ok := env.vars[l.Label]; ok {
			x.topLets[l.Label] = v
		}
	}
	for _, r := range c.Requires {
		t, err := x.evalBool(env, r.Expr)
		if err != nil {
			x.errorf("%s: requires %s: %v", u.Name, r.Label, err)
			continue
		}
		n0 := len(st.pc)
		st.assume(t)
		x.tagFrom(st, n0, "req:"+r.Label)
	}
	if splitVal != nil {
		t, err := x.evalTerm(env, c.Split)
		if err != nil {
			x.errorf("%s: split: %v", u.Name, err)
		} else {
			st.assume(Eq(t, BigLit(splitVal)))
		}
	}
	// vacuity: precondition satisfiable
	res.Vacuity = append(res.Vacuity, &Obligation{Unit: u.Name, Kind: "vacuity", Label: "pre", Assumes: append([]*Term(nil), st.pc...), ExpectSat: true, Src: "precondition is satisfiable"})
	x.entryPC = len(st.pc)
	x.applyLemmas(nil, st, env, "entry")
	x.applyUses(st, env)
	if len(c.Uses) > 0 || len(st.pc) > x.entryPC {
		// vacuity: the precondition together with the axioms / lemma instances in use must not be contradictory
		res.AxiomCheck = &Obligation{Unit: u.Name, Kind: "vacuity", Label: "axioms", Assumes: append([]*Term(nil), st.pc...), ExpectSat: true, Src: "precondition and the axioms in use are not contradictory"}
	}
	var outs []*Outcome
	func() {
		defer func() {
			if r := recover(); r != nil {
				if os.Getenv("GOVC_TRACE") != "" {
					fmt.Fprintf(os.Stderr, "%s\n", debug.Stack())
				}
				x.errorf("%s: engine panic: %v", u.Name, r)
			}
		}()
		f0 := &frame0{}
		_ = f0
		outs = x.runTop(fn, args, st, c, env)
	}()
	retIdx := 0
	var retPaths []*Obligation
	for _, o := range outs {
		if o.panic {
			res.Panics++
			if c.NoPanic {
				x.oblige(o.st, "nopanic", "explicit_panic", o.desc, False, o.desc)
			}
			continue
		}
		res.Returns++
		retIdx++
		renv := &Env{x: x, vars: map[string]Val{}, cur: o.st.world, old: x.oldWorld, st: o.st, oldMem: entryMem, pkg: fn.Pkg}
		for k, v := range o.env {
			renv.vars[k] = v
		}
		for k, v := range env.vars {
			renv.vars[k] = v
		}
		// a local that exists on other paths but not on this one (e.g. an early error return before its definition)
		// is an unconstrained value here, so that "err == nil ==> ... local ..." clauses can be stated
		for name, t := range localNamesOf(fn) {
			if _, ok := renv.vars[name]; ok || o.st.world.get(name) != nil {
				continue
			}
			t = types.Unalias(t)
			if pt, ok := t.Underlying().(*types.Pointer); ok {
				t = types.Unalias(pt.Elem())
			}
			if srt := SortOf(t); srt != nil {
				renv.vars[name] = x.freshTerm("undef_"+name, srt)
			}
		}
		x.bindResults(renv, fn, c, o.rets)
		x.applyLemmas(nil, o.st, renv, "return")
		group := fmt.Sprintf("%sret%d", sitePrefix, retIdx)
		for _, wc := range c.Witness {
			t, err := x.evalBool(renv, wc.Expr)
			if err != nil {
				x.errorf("%s: witness %s: %v", u.Name, wc.Label, err)
				continue
			}
			x.assumed["witness definition "+wc.Label+" in "+u.Name] = true
			o.st.assume(t)
		}
		for _, a := range c.Asserts {
			if a.Label == "return" {
				t, err := x.evalBool(renv, a.Expr)
				if err != nil {
					x.errorf("%s: assert: %v", u.Name, err)
					continue
				}
				x.oblige(o.st, "assert", fmt.Sprintf("return_%d", a.Line), group, t, a.Src)
				o.st.assume(t)
			}
		}
		ensTerms := map[string]*Term{}
		for _, e := range c.Ensures {
			t, err := x.evalBool(renv, e.Expr)
			if err != nil {
				x.errorf("%s: ensures %s: %v", u.Name, e.Label, err)
				continue
			}
			nObl := len(x.obls)
			x.oblige(o.st, "post", e.Label, group, t, e.Src)
			// "by <label>: ens:<earlier label>" lets a clause use an ensures clause declared (and proved) before it
			if len(x.obls) > nObl && !x.obls[nObl].Goal.IsTrue() {
				for _, h := range c.Hints {
					if h.Label != e.Label && h.Label != "post:"+e.Label {
						continue
					}
					for _, f := range h.From {
						if strings.HasPrefix(f, "ens:") {
							if et, ok := ensTerms[f[4:]]; ok {
								x.obls[nObl].Assumes = append(x.obls[nObl].Assumes, et)
							} else {
								x.errorf("%s: by %s: %s is not an earlier ensures clause", u.Name, e.Label, f)
							}
						}
					}
				}
			}
			if e.Label != "" {
				ensTerms[e.Label] = t
			}
		}
		// frame: world components not in modifies must be unchanged
		if !c.ModAll {
			mod := map[string]bool{}
			for _, m := range c.Modifies {
				mod[m] = true
			}
			for _, name := range x.oldWorld.names() {
				if mod[name] || name == "svcEpoch" { // svcEpoch: ghost standing for another module's state (A-MODSEP)
					continue
				}
				a, b := x.oldWorld.get(name), o.st.world.get(name)
				if a == b {
					continue
				}
				x.oblige(o.st, "frame", name, group, Eq(a, b), "world component "+name+" unchanged (not in modifies)")
			}
			for i, prm := range fn.Params {
				if pv, ok := args[i].(*PtrVal); ok && !mod["*"+prm.Name()] && !mod["*"+u.Contract.paramAlias(fn, i)] {
					a, aok := entryMem[pv.Obj].(*Term)
					b, bok := o.st.mem[pv.Obj].(*Term)
					if aok && bok && a != b {
						x.oblige(o.st, "frame", "*"+prm.Name(), group, Eq(a, b), "pointee of "+prm.Name()+" unchanged (not in modifies)")
					}
				}
			}
		}
		retPaths = append(retPaths, &Obligation{Unit: u.Name, Kind: "vacuity", Label: "path", Site: group, Assumes: append([]*Term(nil), o.st.pc...), ExpectSat: true, Src: "a return path is reachable"})
	}
	if len(retPaths) > 0 {
		res.Vacuity = append(res.Vacuity, retPaths...)
	} else if len(x.errs) == 0 {
		x.errorf("%s: no return path explored", u.Name)
	}
	res.Obls = x.obls
	return res
}

type frame0 struct{}

func (x *Exec) paramVal(st *State, prm *ssa.Parameter) Val {
	name := prm.Name()
	t := types.Unalias(prm.Type())
	if _, isMap := t.Underlying().(*types.Map); isMap {
		if s := SortOf(t); s != nil && isMapSort(s) {
			// maps are reference values: the parameter is a handle to a map object with arbitrary initial content
			o := x.newObj(t, name)
			v := Sym("in_"+name, s)
			x.inputs[name] = v
			st.mem[o] = v
			return &MapRef{Obj: o}
		}
	}
	if s := SortOf(t); s != nil {
		v := Sym("in_"+name, s)
		st.assume(TypeInv(v, t, 0))
		x.inputs[name] = v
		return v
	}
	if pt, ok := t.Underlying().(*types.Pointer); ok {
		if es := SortOf(pt.Elem()); es != nil {
			o := x.newObj(pt.Elem(), name)
			v := Sym("in_"+name, es)
			st.assume(TypeInv(v, pt.Elem(), 0))
			x.inputs[name] = v
			st.mem[o] = v
			return &PtrVal{Obj: o}
		}
		o := x.newObj(pt.Elem(), name)
		st.mem[o] = &OpaqueVal{Name: name, Type: pt.Elem()}
		return &PtrVal{Obj: o}
	}
	return &OpaqueVal{Name: name, Type: t}
}

func (x *Exec) runTop(fn *ssa.Function, args []Val, st *State, c *Contract, env *Env) []*Outcome {
	return x.runFunction(fn, args, nil, st, nil, c)
}

// frameEnv: spec environment for a frame at an intermediate point: parameters, named locals, header phis.
func (x *Exec) frameEnv(f *Frame, st *State, header *ssa.BasicBlock) *Env {
	env := &Env{x: x, vars: map[string]Val{}, cur: st.world, old: x.oldWorld, st: st, pkg: f.fn.Pkg}
	if f.fn.Pkg == nil && f.fn.Parent() != nil {
		env.pkg = f.fn.Parent().Pkg
	}
	// outer frames first (closures inlined into callers see the caller's names)
	var chain []*Frame
	for g := f; g != nil; g = g.parent {
		chain = append([]*Frame{g}, chain...)
	}
	for _, g := range chain {
		for _, prm := range g.fn.Params {
			if v, ok := g.regs[prm]; ok {
				env.vars[prm.Name()] = v
			}
			// a slice parameter written through in a loop lives in a cell from the loop cut on
			if p, ok := g.sliceObjs[prm]; ok {
				env.vars[prm.Name()] = p
			}
		}
		x.aliasParams(env, g.fn, x.prog.contractFor(g.fn))
		for _, fv := range g.fn.FreeVars {
			if v, ok := g.regs[fv]; ok {
				env.vars[fv.Name()] = v
			}
		}
		for v, val := range g.regs {
			switch in := v.(type) {
			case *ssa.Alloc:
				if in.Comment != "" && !strings.Contains(in.Comment, " ") && in.Comment != "varargs" && in.Comment != "complit" {
					env.vars[in.Comment] = val
				}
			}
		}
		for name, v := range g.names {
			if _, exists := env.vars[name]; exists {
				continue
			}
			if st.world.get(name) != nil {
				// world component names are not shadowed by locals; the local stays reachable as l_<name>
				if p, ok := g.sliceObjs[v]; ok {
					env.vars["l_"+name] = p
				} else if val, ok := g.regs[v]; ok {
					env.vars["l_"+name] = val
				}
				continue
			}
			if p, ok := g.sliceObjs[v]; ok {
				env.vars[name] = p
				continue
			}
			if val, ok := g.regs[v]; ok {
				env.vars[name] = val
			} else if c, ok := v.(*ssa.Const); ok {
				env.vars[name] = x.constVal(c)
			}
		}
		// the list a range loop walks: rangeover (innermost loop at hand) / rangeover_k (loop with ordinal k) - the
		// operand of the len() the loop index is compared with; lets an invariant talk about an unnamed list such as
		// the result of a call ranged over directly
		for hb, k := range g.loops {
			for _, ins := range hb.Instrs {
				bo, ok := ins.(*ssa.BinOp)
				if !ok || bo.Op != token.LSS {
					continue
				}
				call, ok := bo.Y.(*ssa.Call)
				if !ok {
					continue
				}
				if b, isB := call.Call.Value.(*ssa.Builtin); !isB || b.Name() != "len" || len(call.Call.Args) != 1 {
					continue
				}
				if val, ok := g.regs[call.Call.Args[0]]; ok {
					env.vars[fmt.Sprintf("rangeover_%d", k)] = val
					if g == f && hb == header {
						env.vars["rangeover"] = val
					}
				}
			}
		}
		for v, val := range g.regs {
			if phi, ok := v.(*ssa.Phi); ok && phi.Comment == "rangeindex" {
				// the index of the range loop with ordinal k is also reachable as rangeindex_k (nested loops)
				if k, isHdr := g.loops[phi.Block()]; isHdr {
					env.vars[fmt.Sprintf("rangeindex_%d", k)] = val
				}
			}
			if phi, ok := v.(*ssa.Phi); ok && phi.Comment != "" {
				if g == f && header != nil && phi.Block() != header {
					if _, exists := env.vars[phi.Comment]; exists {
						continue
					}
				}
				env.vars[phi.Comment] = val
			}
		}
	}
	if header != nil {
		for _, ins := range header.Instrs {
			phi, ok := ins.(*ssa.Phi)
			if !ok {
				break
			}
			if phi.Comment != "" {
				if v, ok := f.regs[phi]; ok {
					env.vars[phi.Comment] = v
				}
			}
		}
	}
	// world component names are never shadowed by program variables; the variable stays reachable as l_<name>
	for name, v := range env.vars {
		if st.world.get(name) != nil {
			env.vars["l_"+name] = v
			delete(env.vars, name)
		}
	}
	// iterators: it_idx / it_n / it_seq / it_snap refer to the most recently created iterator
	maxID := 0
	for id := range st.iters {
		if id > maxID {
			maxID = id
		}
	}
	if header != nil && f.loopIter != nil {
		if id, ok := f.loopIter[header]; ok {
			if _, live := st.iters[id]; live {
				maxID = id
			}
		}
	}
	// mr_idx / mr_n / mr_seq / mrpos(k): the most recent walk over a Go map value (range loop)
	mxm := 0
	for id := range st.miters {
		if id > mxm {
			mxm = id
		}
	}
	if mi, ok := st.miters[mxm]; ok {
		env.vars["$miterid"] = mxm
		env.vars["mr_idx"] = mi.Idx
		env.vars["mr_n"] = mi.N
		env.vars["mr_seq"] = mi.Seq
	}
	if it, ok := st.iters[maxID]; ok {
		env.vars["$iter"] = it
		env.vars["$iterid"] = maxID
		env.vars["it_idx"] = it.Idx
		env.vars["it_n"] = it.N
		env.vars["it_seq"] = it.Seq
		env.vars["it_snap"] = it.Snap
	}
	return env
}

func (x *Exec) loopContract(f *Frame) *Contract {
	if f.contract != nil {
		return f.contract
	}
	fn := f.fn
	for fn != nil {
		if c := x.prog.contractFor(fn); c != nil {
			return c
		}
		fn = fn.Parent()
	}
	return nil
}

// loopHeader implements the loop cut. Returns done=true when the path ends here (back edge).
func (x *Exec) loopHeader(f *Frame, st *State, b *ssa.BasicBlock, prev *ssa.BasicBlock, k int, isBack bool) ([]*Outcome, bool) {
	c := x.loopContract(f)
	fkey := x.prog.funcKey(f.fn)
	var invs []*Clause
	if c != nil {
		for _, iv := range c.Invariants {
			if iv.Loop == k && (iv.Fn == "" || iv.Fn == lastName(fkey)) {
				invs = append(invs, iv)
			}
		}
	}
	// a unit may state invariants of its own for the loops of a helper inlined into it ("invariant @Helper #k ..."):
	// what the walk establishes depends on the callback the unit hands to the helper
	if top := x.unit.Contract; top != nil && top != c {
		for _, iv := range top.Invariants {
			if iv.Loop == k && iv.Fn != "" && iv.Fn == lastName(fkey) {
				invs = append(invs, iv)
			}
		}
	}
	// set phis from the incoming edge
	idx := -1
	for j, p := range b.Preds {
		if p == prev {
			idx = j
		}
	}
	var phis []*ssa.Phi
	var vals []Val
	for _, ins := range b.Instrs {
		phi, ok := ins.(*ssa.Phi)
		if !ok {
			break
		}
		phis = append(phis, phi)
		vals = append(vals, x.value(f, st, phi.Edges[idx]))
	}
	for j, phi := range phis {
		f.regs[phi] = vals[j]
	}
	label := func(iv *Clause) string { return fmt.Sprintf("%s#%d:%s", lastName(fkey), k, iv.Label) }
	if !isBack {
		mx := 0
		for id := range st.iters {
			if id > mx {
				mx = id
			}
		}
		if mx > 0 {
			if f.loopIter == nil {
				f.loopIter = map[*ssa.BasicBlock]int{}
			}
			f.loopIter[b] = mx
		}
	}
	env := x.frameEnv(f, st, b)
	x.addTopLets(env)
	// witness definitions (skolem functions of the contract) are available at loop heads too
	wcs := c
	if wcs == nil {
		wcs = x.unit.Contract
	}
	if wcs != nil {
		for _, wc := range wcs.Witness {
			if t, err := x.evalBool(env, wc.Expr); err == nil {
				st.assume(t)
			}
		}
	}
	// invariants that no longer fit the loop (renamed variables, changed loop form, loop moved into a helper): see adapt.go
	akey := fmt.Sprintf("%s#%d", fkey, k)
	if x.adapt == nil {
		x.adapt = map[string]*loopAdapt{}
	}
	ad, adapted := x.adapt[akey]
	if !adapted && !isBack {
		var groups [][]*Clause
		if len(invs) > 0 {
			groups = [][]*Clause{invs}
		} else if c == nil && x.unit.Contract != nil {
			byLoop := map[int][]*Clause{}
			var ks []int
			for _, iv := range x.unit.Contract.Invariants {
				if iv.Fn == "" {
					if _, ok := byLoop[iv.Loop]; !ok {
						ks = append(ks, iv.Loop)
					}
					byLoop[iv.Loop] = append(byLoop[iv.Loop], iv)
				}
			}
			sort.Ints(ks)
			for _, kk := range ks {
				groups = append(groups, byLoop[kk])
			}
		}
		if len(groups) > 0 {
			needs := len(invs) == 0
			if !needs {
				e0 := x.frameEnv(f, st, b)
				x.addTopLets(e0)
				needs = len(x.unknownIdents(e0, invs)) > 0
			}
			if needs {
				if a := x.tryAdapt(f, st, b, groups); a != nil {
					x.adapt[akey] = a
					ad, adapted = a, true
					x.assumed[fmt.Sprintf("invariants of loop %s adapted to the code: %s (proved inductive as usual)", akey, a.String())] = true
				} else {
					x.adapt[akey] = nil
				}
			}
		}
	}
	if ad != nil {
		invs = ad.group
	}
	// declared clauses that name variables the code no longer has (and that the adaptation search could not map) are
	// dropped - fewer invariants is a weaker assumption, so this is sound; the unit then fails, if at all, on the
	// obligations that needed them - and the loop falls back to the default position invariant
	dropped := false
	if len(invs) > 0 {
		e0 := env
		if ad != nil {
			e0 = x.frameEnv(f, st, b)
			x.addTopLets(e0)
			ad.apply(e0)
		}
		var kept []*Clause
		for _, iv := range invs {
			if len(x.unknownIdents(e0, []*Clause{iv})) > 0 {
				dropped = true
				x.assumed[fmt.Sprintf("invariant %s of loop %s#%d names variables the code does not have: clause dropped, default position invariant used instead", iv.Label, lastName(fkey), k)] = true
				continue
			}
			kept = append(kept, iv)
		}
		invs = kept
	}
	if len(invs) == 0 || dropped {
		// a loop nobody wrote an invariant for (a helper extracted by a refactoring, a new conversion loop): the walk
		// itself is described by its position - a range loop stays inside the list it ranges over, an index loop
		// inside the list whose length bounds it, an iterator or map walk inside its enumeration. These default clauses
		// are proved like declared ones; whatever else the unit needs from the loop it has to state, and then fails on
		// its own obligations, not on the missing invariant.
		var defs []string
		if _, ok := env.vars["rangeindex"]; ok {
			if _, ok2 := env.vars["rangeover"]; ok2 {
				defs = append(defs, "rangeindex >= 0 - 1 && rangeindex < len(rangeover)")
			}
		} else {
			// index loop "for i := ...; i < n; i++": the counter is not negative (inside the body the loop condition bounds it from above)
			for _, ins := range b.Instrs {
				bo, ok := ins.(*ssa.BinOp)
				if !ok || bo.Op != token.LSS {
					continue
				}
				if phi, isPhi := bo.X.(*ssa.Phi); isPhi && phi.Comment != "" && phi.Block() == b {
					if _, bound := env.vars[phi.Comment]; bound {
						defs = append(defs, fmt.Sprintf("0 <= %s", phi.Comment))
					}
				}
			}
		}
		if b0 := f.loopIter; b0 != nil {
			if _, own := b0[b]; own || isBack {
				if _, ok := env.vars["it_idx"]; ok && loopAdvancesIter(f.inLoop[b]) {
					defs = append(defs, "0 <= it_idx && it_idx <= it_n")
				}
			}
		}
		if _, ok := env.vars["mr_idx"]; ok && loopHasNext(f.inLoop[b]) {
			defs = append(defs, "0 <= mr_idx && mr_idx <= mr_n")
		}
		n0 := len(invs)
		for _, d := range defs {
			if e, err := ParseExpr(d); err == nil {
				invs = append(invs, &Clause{Label: "auto", Expr: e, Src: d, Loop: k})
			}
		}
		if len(invs) > n0 && !dropped {
			x.assumed[fmt.Sprintf("loop %s#%d has no declared invariant: default position invariant used (proved as usual)", lastName(fkey), k)] = true
		}
	}
	if len(invs) == 0 {
		x.oblige(st, "loopinv-missing", fmt.Sprintf("%s#%d", lastName(fkey), k), x.pos(b.Instrs[0].Pos()), False, "loop without invariant in "+fkey)
		return nil, true
	}
	if ad != nil {
		ad.apply(env)
	}
	for _, iv := range invs {
		t, err := x.evalBool(env, iv.Expr)
		if err != nil {
			x.errorf("%s: invariant %s: %v", fkey, iv.Label, err)
			continue
		}
		if isBack {
			x.oblige(st, "inv-keep", label(iv), "", t, iv.Src)
		} else {
			x.oblige(st, "inv-init", label(iv), "", t, iv.Src)
		}
	}
	if isBack {
		// frame inside loops: a component the unit may not modify is the same at the end of an iteration as at its
		// start (a write to it in the loop body would otherwise be lost at the cut and never meet the frame
		// obligation of the return)
		if top := x.unit.Contract; top != nil && !top.ModAll {
			if w0 := f.loopWorld[b]; w0 != nil {
				mod := map[string]bool{}
				for _, m := range top.Modifies {
					mod[m] = true
				}
				pre := f.loopPre[b]
				for _, name := range w0.names() {
					if name == "svcEpoch" {
						continue
					}
					a, c := w0.get(name), st.world.get(name)
					if a == nil || c == nil || a == c {
						continue
					}
					if mod[name] {
						// in modifies: the cut gave it a fresh value if the write-set analysis found a write in the body;
						// where it found none, the body must indeed leave it alone
						if pre == nil || pre.get(name) != a {
							continue
						}
						x.oblige(st, "frame", fmt.Sprintf("%s@%s#%d", name, lastName(fkey), k), "", Eq(a, c), "world component "+name+" unchanged by an iteration of the loop (no write to it was found in the loop body, so the cut kept its value)")
						continue
					}
					x.oblige(st, "frame", fmt.Sprintf("%s@%s#%d", name, lastName(fkey), k), "", Eq(a, c), "world component "+name+" unchanged by an iteration of the loop (not in modifies)")
				}
			}
		}
		return nil, true
	}
	// havoc loop-carried state
	if f.loopPre == nil {
		f.loopPre = map[*ssa.BasicBlock]*World{}
	}
	f.loopPre[b] = st.world.clone()
	body := f.inLoop[b]
	for _, phi := range phis {
		f.regs[phi] = x.havocLike(st, f.regs[phi], phi.Type(), phi.Comment)
	}
	touchesWorld := false
	for blk := range body {
		for _, ins := range blk.Instrs {
			switch in := ins.(type) {
			case *ssa.Store:
				x.havocTarget(f, st, in.Addr)
			case *ssa.MapUpdate:
				if mr, ok := f.regs[in.Map].(*MapRef); ok {
					if cur, ok := st.mem[mr.Obj].(*Term); ok {
						st.mem[mr.Obj] = x.freshTerm("loopmap", cur.Sort)
					}
				}
			case ssa.CallInstruction:
				cc := in.Common()
				// a closure called in the loop (directly, or handed to a callee) may write the variables it captured:
				// those cells are loop-carried state too
				for _, cand := range append([]ssa.Value{cc.Value}, cc.Args...) {
					if cand == nil {
						continue
					}
					if _, isSig := cand.Type().Underlying().(*types.Signature); !isSig {
						continue
					}
					for g := f; g != nil; g = g.parent {
						if cv, ok := g.regs[cand].(*ClosureVal); ok {
							x.havocCaptured(st, cv, map[*ssa.Function]bool{})
							break
						}
					}
				}
				for _, a := range cc.Args {
					if _, ok := a.Type().Underlying().(*types.Pointer); ok {
						x.havocTarget(f, st, a)
					}
					if isStateful(a.Type()) {
						touchesWorld = true
					}
				}
				if cc.IsInvoke() {
					touchesWorld = true
				} else if isStateful(cc.Value.Type()) {
					touchesWorld = true
				}
				if cc.Signature().Recv() != nil && len(cc.Args) > 0 && isStateful(cc.Args[0].Type()) {
					touchesWorld = true
				}
				if _, ok := cc.Value.(*ssa.MakeClosure); ok {
					touchesWorld = true
				}
				if _, isFn := cc.Value.(*ssa.Function); !isFn && !cc.IsInvoke() {
					if _, isB := cc.Value.(*ssa.Builtin); !isB {
						touchesWorld = true
					}
				}
			}
		}
	}
	if touchesWorld {
		top := x.unit.Contract
		st.world = st.world.clone()
		// only what the loop body can write is havocked (write-set analysis over the body and its callees; a call
		// through a function value is resolved through the frames' registers; any doubt => everything in modifies)
		resolve := func(v ssa.Value) *ssa.Function {
			for g := f; g != nil; g = g.parent {
				if cv, ok := g.regs[v].(*ClosureVal); ok {
					return cv.Fn
				}
				if fv, ok := g.regs[v].(*FuncVal); ok {
					return fv.Fn
				}
			}
			return nil
		}
		var ws map[string]bool
		wsOK := false
		if os.Getenv("GOVC_NOWRITESET") == "" {
			ws, wsOK = x.prog.loopWrites(body, resolve)
		}
		if top.ModAll && !wsOK {
			st.world = st.world.havocAll(x)
		} else if top.ModAll {
			for m := range ws {
				st.world.havoc(x, m)
			}
		} else {
			for _, m := range top.Modifies {
				if !strings.HasPrefix(m, "*") && (!wsOK || ws[m]) {
					st.world.havoc(x, m)
				}
			}
		}
	}
	// havoc iterator positions - only if this loop can advance an iterator created before it: its blocks call Next on an
	// iterator or hand an iterator to a callee (an inner loop over a slice leaves the position of an enclosing store walk alone)
	advanced := map[*IterState]bool{}
	advanceAll := false
	markIter := func(v ssa.Value) {
		if r, ok := f.regs[v]; ok {
			if it := x.iterOf(st, r); it != nil {
				advanced[it] = true
				return
			}
		}
		if r, ok := f.regs[v]; ok {
			if ov, isOpaque := r.(*OpaqueVal); isOpaque && ov.Name == "iterator" {
				return // an opaque iterator (undeclared prefix) is not one of the modelled walks
			}
			if iv, isI := r.(*IfaceVal); isI {
				if ov, isOpaque := iv.Dyn.(*OpaqueVal); isOpaque && ov.Name == "iterator" {
					return
				}
			}
			advanceAll = true // an iterator-typed value we cannot resolve
		}
		// not in the registers: created inside the loop, fresh each iteration
	}
	for blk := range body {
		for _, ins := range blk.Instrs {
			ci, ok := ins.(ssa.CallInstruction)
			if !ok {
				continue
			}
			cc := ci.Common()
			if cc.IsInvoke() && cc.Method.Name() == "Next" && strings.Contains(types.TypeString(cc.Value.Type(), nil), "Iterator") {
				markIter(cc.Value)
			}
			for _, a := range cc.Args {
				if strings.Contains(types.TypeString(a.Type(), nil), "Iterator") {
					markIter(a)
				}
			}
		}
	}
	for blk := range body {
		for _, ins := range blk.Instrs {
			if nx, ok := ins.(*ssa.Next); ok {
				if mv, ok := f.regs[nx.Iter].(*MapIterVal); ok {
					if mi := st.miters[mv.ID]; mi != nil {
						mi.Idx = x.freshTerm("mr_idx", SInt)
						st.assume(And(Ge(mi.Idx, IntLit(0)), Le(mi.Idx, mi.N)))
					}
				}
			}
		}
	}
	for id, it := range st.iters {
		_ = id
		if advanceAll || advanced[it] {
			it.Idx = x.freshTerm("it_idx", SInt)
			st.assume(And(Ge(it.Idx, IntLit(0)), Le(it.Idx, it.N)))
		}
	}
	env = x.frameEnv(f, st, b)
	x.addTopLets(env)
	if ad != nil {
		ad.apply(env)
	}
	for _, iv := range invs {
		t, err := x.evalBool(env, iv.Expr)
		if err != nil {
			continue
		}
		n0 := len(st.pc)
		st.assume(t)
		x.tagFrom(st, n0, "inv:"+iv.Label)
	}
	if f.loopWorld == nil {
		f.loopWorld = map[*ssa.BasicBlock]*World{}
	}
	f.loopWorld[b] = st.world.clone()
	return nil, false
}

func (x *Exec) addTopLets(env *Env) {
	// entry-state lets of the unit's contract are visible everywhere in the unit
	for k, v := range x.topLets {
		if _, ok := env.vars[k]; !ok {
			env.vars[k] = v
		}
	}
}

func (x *Exec) havocLike(st *State, v Val, t types.Type, name string) Val {
	switch c := v.(type) {
	case *Term:
		nv := x.freshTerm("loop_"+name, c.Sort)
		st.assume(TypeInv(nv, t, 0))
		return nv
	case *NilPtr:
		if s := SortOf(t); s != nil {
			nv := x.freshTerm("loop_"+name, s)
			st.assume(TypeInv(nv, t, 0))
			return nv
		}
	}
	return x.freshVal(st, t, "loop_"+name)
}

func (x *Exec) havocTarget(f *Frame, st *State, addr ssa.Value) {
	// find root pointer
	cur := addr
	for {
		switch a := cur.(type) {
		case *ssa.FieldAddr:
			cur = a.X
			continue
		case *ssa.IndexAddr:
			cur = a.X
			continue
		}
		break
	}
	if p, ok := f.sliceObjs[cur]; ok {
		if c, ok := st.mem[p.Obj].(*Term); ok && isSliceSort(c.Sort) {
			// element stores never change the length of the slice
			st.mem[p.Obj] = Con(c.Sort, SelField(c, 0), x.freshTerm("loopelems", c.Sort.Fields[1].Sort))
		}
		return
	}
	v, ok := f.regs[cur]
	if !ok {
		return // defined inside the loop: fresh each iteration
	}
	if t, isT := v.(*Term); isT && isSliceSort(t.Sort) {
		// a slice register written through inside the loop: give it a cell now, then havoc it
		if f.sliceObjs == nil {
			f.sliceObjs = map[ssa.Value]*PtrVal{}
		}
		o := x.newObj(cur.Type(), "slice:"+cur.Name())
		st.mem[o] = Con(t.Sort, SelField(t, 0), x.freshTerm("loopelems", t.Sort.Fields[1].Sort))
		f.sliceObjs[cur] = &PtrVal{Obj: o}
		return
	}
	if pv, ok := v.(*PtrVal); ok {
		if _, isG := x.prog.globalObjs[pv.Obj]; isG {
			return
		}
		switch c := st.mem[pv.Obj].(type) {
		case *Term:
			nv := x.freshTerm("loopmem_"+pv.Obj.name, c.Sort)
			st.assume(TypeInv(nv, pv.Obj.typ, 0))
			st.mem[pv.Obj] = nv
		}
	}
}

// applyLemmas instantiates lemma uses with the given anchor.
func (x *Exec) applyLemmas(f *Frame, st *State, env *Env, anchor string) {
	c := x.unit.Contract
	if c == nil {
		return
	}
	for _, lu := range c.Lemmas {
		if lu.Anchor != anchor {
			continue
		}
		ld := x.prog.lemmas[lu.Name]
		if ld == nil {
			x.errorf("%s: unknown lemma %s", x.unit.Name, lu.Name)
			continue
		}
		if len(ld.Params) != len(lu.Args) {
			x.errorf("%s: lemma %s arity", x.unit.Name, lu.Name)
			continue
		}
		sub := &Env{x: x, vars: map[string]Val{}, cur: env.cur, old: env.old, st: st, oldMem: env.oldMem, pkg: env.pkg}
		ok := true
		for i, prm := range ld.Params {
			v, err := x.evalTerm(env, lu.Args[i])
			if err != nil {
				// a guarded lemma whose argument dereferences a nil result (error path): the guard is false there
				if !(lu.Guard != nil && strings.Contains(err.Error(), "of nil")) {
					x.errorf("%s: lemma %s arg %d: %v", x.unit.Name, lu.Name, i, err)
				}
				ok = false
				break
			}
			sub.vars[prm.Name] = v
		}
		if !ok {
			continue
		}
		x.assumed["lemma "+lu.Name] = true
		guard := True
		if lu.Guard != nil {
			g, err := x.evalBool(env, lu.Guard)
			if err != nil {
				x.errorf("%s: lemma %s guard: %v", x.unit.Name, lu.Name, err)
				continue
			}
			guard = g
		}
		for _, r := range ld.Requires {
			t, err := x.evalBool(sub, r.Expr)
			if err != nil {
				x.errorf("lemma %s requires: %v", lu.Name, err)
				continue
			}
			x.oblige(st, "lemma-pre", fmt.Sprintf("%s@%s", lu.Name, anchor), "", Implies(guard, t), r.Src)
			st.assume(Implies(guard, t))
		}
		for _, e := range ld.Ensures {
			t, err := x.evalBool(sub, e.Expr)
			if err != nil {
				x.errorf("lemma %s ensures: %v", lu.Name, err)
				continue
			}
			st.assume(Implies(guard, t))
		}
	}
}

// lemmaObligations: each declared lemma is itself proved.
func (p *Program) lemmaObligations() []*Obligation {
	var out []*Obligation
	var names []string
	for n := range p.lemmas {
		names = append(names, n)
	}
	sort.Strings(names)
	for _, n := range names {
		ld := p.lemmas[n]
		if ld.Axiom {
			continue
		}
		x := &Exec{prog: p, unit: &Unit{Name: "lemma:" + n}, inlined: map[string]bool{}, assumed: map[string]bool{}, unknown: map[string]bool{}, inputs: map[string]*Term{}}
		st := &State{mem: map[*Obj]Val{}}
		st.world = &World{comps: map[string]*Term{}}
		env := &Env{x: x, vars: map[string]Val{}, cur: st.world, old: st.world, st: st}
		for _, prm := range ld.Params {
			var s *Sort
			switch prm.Sort {
			case "Int", "":
				s = SInt
			case "Bool":
				s = SBool
			case "Real":
				s = SReal
			default:
				s = SInt
			}
			v := Sym("l_"+prm.Name, s)
			env.vars[prm.Name] = v
			x.inputs[prm.Name] = v
		}
		bad := false
		for _, r := range ld.Requires {
			t, err := x.evalBool(env, r.Expr)
			if err != nil {
				bad = true
				out = append(out, &Obligation{Unit: "lemma:" + n, Kind: "lemma", Label: "parse", Goal: False, Src: err.Error()})
				break
			}
			st.assume(t)
		}
		if bad {
			continue
		}
		var goals []*Term
		for _, e := range ld.Ensures {
			t, err := x.evalBool(env, e.Expr)
			if err != nil {
				out = append(out, &Obligation{Unit: "lemma:" + n, Kind: "lemma", Label: "parse", Goal: False, Src: err.Error()})
				continue
			}
			goals = append(goals, t)
		}
		out = append(out, &Obligation{Unit: "lemma:" + n, Kind: "lemma", Label: "proof", Assumes: st.pc, Goal: And(goals...), Inputs: x.inputs, Src: "lemma " + n})
	}
	return out
}

// applyUses assumes the universal closure of a declared axiom / proved lemma (sorts taken from sample arguments).
func (x *Exec) applyUses(st *State, env *Env) {
	c := x.unit.Contract
	for _, lu := range c.Uses {
		ld := x.prog.lemmas[lu.Name]
		if ld == nil || len(ld.Params) != len(lu.Args) {
			x.errorf("%s: uses: unknown lemma or arity mismatch: %s", x.unit.Name, lu.Name)
			continue
		}
		sub := &Env{x: x, vars: map[string]Val{}, cur: env.cur, old: env.old, st: st, oldMem: env.oldMem, pkg: env.pkg}
		var bvs []*Term
		ok := true
		for i, prm := range ld.Params {
			sample, err := x.evalTerm(env, lu.Args[i])
			if err != nil {
				x.errorf("%s: uses %s: sample argument %d: %v", x.unit.Name, lu.Name, i, err)
				ok = false
				break
			}
			bv := NewBound(prm.Name, sample.Sort)
			bvs = append(bvs, bv)
			sub.vars[prm.Name] = bv
		}
		if !ok {
			continue
		}
		var pre, post []*Term
		for _, r := range ld.Requires {
			if t, err := x.evalBool(sub, r.Expr); err == nil {
				pre = append(pre, t)
			} else {
				x.errorf("uses %s: %v", lu.Name, err)
			}
		}
		for _, e := range ld.Ensures {
			if t, err := x.evalBool(sub, e.Expr); err == nil {
				post = append(post, t)
			} else {
				x.errorf("uses %s: %v", lu.Name, err)
			}
		}
		body := Implies(And(pre...), And(post...))
		for i := len(bvs) - 1; i >= 0; i-- {
			body = Forall(bvs[i], body)
		}
		x.assumed["lemma (universal closure) "+lu.Name] = true
		n0 := len(st.pc)
		st.assume(body)
		x.tagFrom(st, n0, "uses:"+lu.Name)
	}
}

// localNamesOf: the named local variables of a function (from its debug references), with their types.
func localNamesOf(fn *ssa.Function) map[string]types.Type {
	out := map[string]types.Type{}
	for _, b := range fn.Blocks {
		for _, ins := range b.Instrs {
			if d, ok := ins.(*ssa.DebugRef); ok && !d.IsAddr {
				if id, ok := d.Expr.(*ast.Ident); ok && id.Name != "_" {
					if _, dup := out[id.Name]; !dup {
						out[id.Name] = d.X.Type()
					}
				}
			}
		}
	}
	return out
}

// closureWrites: indices of the free variables of fn that fn (or a closure it creates, or a callee it hands them to)
// may write through.
func closureWrites(fn *ssa.Function) map[int]bool {
	idx := map[ssa.Value]int{}
	for i, fv := range fn.FreeVars {
		idx[fv] = i
	}
	root := func(v ssa.Value) (int, bool) {
		for d := 0; d < 10; d++ {
			switch t := v.(type) {
			case *ssa.FreeVar:
				i, ok := idx[t]
				return i, ok
			case *ssa.FieldAddr:
				v = t.X
			case *ssa.IndexAddr:
				v = t.X
			case *ssa.UnOp:
				v = t.X
			case *ssa.Slice:
				v = t.X
			default:
				return 0, false
			}
		}
		return 0, false
	}
	w := map[int]bool{}
	for _, b := range fn.Blocks {
		for _, ins := range b.Instrs {
			switch in := ins.(type) {
			case *ssa.Store:
				if i, ok := root(in.Addr); ok {
					w[i] = true
				}
			case *ssa.MapUpdate:
				if i, ok := root(in.Map); ok {
					w[i] = true
				}
			case *ssa.MakeClosure:
				for _, bnd := range in.Bindings {
					if i, ok := root(bnd); ok {
						w[i] = true
					}
				}
			case ssa.CallInstruction:
				for _, a := range in.Common().Args {
					switch a.Type().Underlying().(type) {
					case *types.Pointer, *types.Map, *types.Slice:
						if i, ok := root(a); ok {
							if _, isByteSlice := a.Type().Underlying().(*types.Slice); isByteSlice {
								if bs, ok := a.Type().Underlying().(*types.Slice).Elem().Underlying().(*types.Basic); ok && bs.Kind() == types.Byte {
									continue
								}
							}
							// append(s, ...) does not write through s's cell
							if bi, isB := in.Common().Value.(*ssa.Builtin); isB && (bi.Name() == "append" || bi.Name() == "len" || bi.Name() == "cap" || bi.Name() == "copy") {
								continue
							}
							w[i] = true
						}
					}
				}
			}
		}
	}
	return w
}

// havocCaptured: the captured variables a closure may write become unknown (loop cut).
func (x *Exec) havocCaptured(st *State, cv *ClosureVal, seen map[*ssa.Function]bool) {
	if cv == nil || cv.Fn == nil || seen[cv.Fn] {
		return
	}
	seen[cv.Fn] = true
	w := closureWrites(cv.Fn)
	for i, b := range cv.Bindings {
		if inner, ok := b.(*ClosureVal); ok {
			x.havocCaptured(st, inner, seen)
			continue
		}
		if !w[i] {
			continue
		}
		x.havocCell(st, b, 0)
	}
}

func (x *Exec) havocCell(st *State, b Val, depth int) {
	if depth > 3 {
		return
	}
	switch pv := b.(type) {
	case *MapRef:
		if cur, ok := st.mem[pv.Obj].(*Term); ok {
			st.mem[pv.Obj] = x.freshTerm("loopmap", cur.Sort)
		}
	case *PtrVal:
		if _, isG := x.prog.globalObjs[pv.Obj]; isG {
			return
		}
		switch c := st.mem[pv.Obj].(type) {
		case *Term:
			nv := x.freshTerm("loopcap_"+pv.Obj.name, c.Sort)
			st.assume(TypeInv(nv, pv.Obj.typ, 0))
			st.mem[pv.Obj] = nv
		case *MapRef, *PtrVal:
			x.havocCell(st, c, depth+1)
		case *NilPtr:
			if srt := SortOf(pv.Obj.typ); srt != nil {
				nv := x.freshTerm("loopcap_"+pv.Obj.name, srt)
				st.assume(TypeInv(nv, pv.Obj.typ, 0))
				st.mem[pv.Obj] = nv
			}
		}
	}
}

func loopHasNext(body map[*ssa.BasicBlock]bool) bool {
	for blk := range body {
		for _, ins := range blk.Instrs {
			if nx, ok := ins.(*ssa.Next); ok && !nx.IsString {
				return true
			}
		}
	}
	return false
}

func loopAdvancesIter(body map[*ssa.BasicBlock]bool) bool {
	for blk := range body {
		for _, ins := range blk.Instrs {
			if ci, ok := ins.(ssa.CallInstruction); ok {
				cc := ci.Common()
				if cc.IsInvoke() && cc.Method.Name() == "Next" && strings.Contains(types.TypeString(cc.Value.Type(), nil), "Iterator") {
					return true
				}
			}
		}
	}
	return false
}
