package main

import (
	"fmt"
	"go/types"
	"math/big"
	"sort"
	"strings"
)

// World: the symbolic chain state threaded through an execution path.
//   bal    : Array Bytes (Array Str Int)   bank balances
//   supply : Array Str Int                 bank total supply
//   height, time : Int                     block header
//   <family> : Map<K,V>                    one per declared store family
//   ghost components declared by theories (e.g. "erc20", "nft.owner")

type World struct {
	comps map[string]*Term
}

var SBal = ArraySort(SBytes, SCoins)

func (w *World) clone() *World {
	n := &World{comps: make(map[string]*Term, len(w.comps))}
	for k, v := range w.comps {
		n.comps[k] = v
	}
	return n
}

func (w *World) names() []string {
	var ns []string
	for k := range w.comps {
		ns = append(ns, k)
	}
	sort.Strings(ns)
	return ns
}

func (w *World) get(name string) *Term { return w.comps[name] }

func (w *World) set(name string, t *Term) {
	if old, ok := w.comps[name]; ok && old.Sort != t.Sort {
		panic(fmt.Sprintf("world component %s sort change %s -> %s", name, old.Sort, t.Sort))
	}
	w.comps[name] = t
}

func (w *World) havoc(x *Exec, name string) {
	old, ok := w.comps[name]
	if !ok {
		x.errorf("modifies unknown world component %q", name)
		return
	}
	w.comps[name] = x.freshTerm("w_"+name, old.Sort)
}

func (w *World) havocAll(x *Exec) *World {
	n := w.clone()
	for _, k := range w.names() {
		if k == "height" || k == "time" || k == "txbytes" || k == "apphash" || k == "chainid" {
			continue
		}
		n.havoc(x, k)
	}
	return n
}

func (x *Exec) initialWorld(st *State) *World {
	w := &World{comps: map[string]*Term{}}
	w.comps["bal"] = Sym("w0_bal", SBal)
	w.comps["supply"] = Sym("w0_supply", SCoins)
	w.comps["height"] = Sym("w0_height", SInt)
	w.comps["time"] = Sym("w0_time", SInt)
	w.comps["blocked"] = Sym("w0_blocked", ArraySort(SBytes, SBool))
	st.assume(Ge(w.comps["height"], IntLit(0)))
	st.assume(Le(w.comps["height"], BigLit(new(big.Int).Lsh(big.NewInt(1), 62)))) // A-ENV: block heights stay below 2^62
	for _, fam := range x.prog.familyList() {
		w.comps[fam.Name] = Sym("w0_"+fam.Name, fam.Sort)
	}
	if nt := x.prog.lookupType("nft", "NFT"); nt != nil {
		if ct := x.prog.lookupType("nft", "Class"); ct != nil && SortOf(nt) != nil && SortOf(ct) != nil {
			w.comps["nftTokens"] = Sym("w0_nftTokens", MapSort(nftKeySort, SortOf(nt)))
			w.comps["nftOwner"] = Sym("w0_nftOwner", ArraySort(nftKeySort, SBytes))
			w.comps["nftClasses"] = Sym("w0_nftClasses", MapSort(SStr, SortOf(ct)))
		}
	}
	for _, g := range x.prog.ghosts {
		w.comps[g.Name] = Sym("w0_"+g.Name, g.Sort)
	}
	return w
}

// ---------------------------------------------------------------------------------------
// Families

type Family struct {
	Name     string
	KeyFunc  string // "types.GetPoolKey" or "global:types.ParamsKey"
	KeySorts []*Sort
	KeySort  *Sort // tuple datatype when len(KeySorts) != 1 ; SBool (unit key) when 0
	ValSort  *Sort
	ValType  types.Type
	Enc      string
	Sort     *Sort // Map<KeySort,ValSort>
	Prefixes map[string]int // prefix func -> number of leading key args it fixes
	PrefixPos map[string][]int    // prefix func -> key components its parameters fix (matched by parameter name)
	PrefixBy  map[string][]string // prefix func -> uninterpreted projections of the single key component its parameters fix
	Decl     *FamilyDecl
}

func (fam *Family) key(args []*Term) *Term {
	switch len(fam.KeySorts) {
	case 0:
		return True
	case 1:
		return args[0]
	}
	return Con(fam.KeySort, args...)
}

type KeyVal struct {
	Fam     *Family
	Args    []*Term
	Partial bool
	Pos     []int    // partial key: which key components Args fix (nil = the leading ones)
	By      []string // partial key over derived components: Args[i] is the value of uninterpreted function By[i] of the (single) key component
	Extra   []Val    // bytes appended after a partial key
}

func (k *KeyVal) appendBytes(x *Exec, add Val) Val {
	n := &KeyVal{Fam: k.Fam, Args: k.Args, Partial: k.Partial, Pos: k.Pos, By: k.By, Extra: append(append([]Val(nil), k.Extra...), add)}
	return n
}

type EncVal struct {
	Enc string // proto, be64, raw
	V   *Term
	Nil *Term
}

type StoreVal struct {
	Prefix *KeyVal
}

type IterVal struct{ ID int }

type IterState struct {
	Fam     *Family
	Prefix  []*Term
	Seq     *Term // Array Int KeySort: keys in iteration order
	N       *Term
	Idx     *Term
	Reverse bool
	Snap    *Term // family value at creation
}

func famHas(f *Term, k *Term) *Term { return Select(SelField(f, 0), k) }
func famGet(f *Term, k *Term) *Term { return Select(SelField(f, 1), k) }
func famSet(f *Term, k, v *Term) *Term {
	return Con(f.Sort, Store(SelField(f, 0), k, True), Store(SelField(f, 1), k, v))
}
func famDel(f *Term, k *Term) *Term {
	return Con(f.Sort, Store(SelField(f, 0), k, False), SelField(f, 1))
}

func (x *Exec) storeGet(st *State, key Val, pos string) Val {
	kv, ok := x.asKey(st, key)
	if !ok || kv.Partial {
		x.errorf("store.Get with unresolved key (%T) at %s", key, pos)
		return &EncVal{Enc: "raw", V: x.freshTerm("bz", SBytes), Nil: x.freshTerm("bznil", SBool)}
	}
	fv := st.world.get(kv.Fam.Name)
	k := kv.Fam.key(kv.Args)
	return &EncVal{Enc: kv.Fam.Enc, V: famGet(fv, k), Nil: Not(famHas(fv, k))}
}

func (x *Exec) storeHas(st *State, key Val, pos string) Val {
	kv, ok := x.asKey(st, key)
	if !ok || kv.Partial {
		x.errorf("store.Has with unresolved key (%T) at %s", key, pos)
		return x.freshTerm("has", SBool)
	}
	return famHas(st.world.get(kv.Fam.Name), kv.Fam.key(kv.Args))
}

func (x *Exec) storeDelete(st *State, key Val, pos string) {
	kv, ok := x.asKey(st, key)
	if !ok || kv.Partial {
		x.errorf("store.Delete with unresolved key (%T) at %s", key, pos)
		st.world = st.world.havocAll(x)
		return
	}
	st.world = st.world.clone()
	st.world.set(kv.Fam.Name, famDel(st.world.get(kv.Fam.Name), kv.Fam.key(kv.Args)))
}

func (x *Exec) storeSet(st *State, key Val, val Val, pos string) {
	kv, ok := x.asKey(st, key)
	if !ok || kv.Partial {
		x.errorf("store.Set with unresolved key (%T) at %s", key, pos)
		st.world = st.world.havocAll(x)
		return
	}
	var v *Term
	switch e := val.(type) {
	case *EncVal:
		if e.Enc == kv.Fam.Enc && e.V.Sort == kv.Fam.ValSort {
			v = e.V
		} else if e.Enc == kv.Fam.Enc && e.V != nil {
			// a gogotypes wrapper marshalled as its value, stored in a family declared with the wrapper type
			v = rewrapGogo(e.V, kv.Fam.ValSort)
		}
	case *Term:
		if kv.Fam.Enc == "raw" && e.Sort == SBytes {
			v = e
		}
	case *GoSlice:
		if kv.Fam.Enc == "unit" || kv.Fam.ValSort == SBool {
			v = True
		}
	}
	if kv.Fam.Enc == "unit" {
		v = True
	}
	if v == nil {
		x.errorf("store.Set on family %s with value %T not matching encoding %s/%s at %s", kv.Fam.Name, val, kv.Fam.Enc, kv.Fam.ValSort, pos)
		st.world = st.world.clone()
		st.world.havoc(x, kv.Fam.Name)
		return
	}
	st.world = st.world.clone()
	st.world.set(kv.Fam.Name, famSet(st.world.get(kv.Fam.Name), kv.Fam.key(kv.Args), v))
}

// asKey resolves a value used as a store key to a family key.
func (x *Exec) asKey(st *State, key Val) (*KeyVal, bool) {
	switch k := key.(type) {
	case *KeyVal:
		if k.Partial && len(k.Extra) > 0 {
			// prefix + appended bytes completing the key: only the single-missing-arg case
			if k.Pos == nil && k.By == nil && len(k.Args)+len(k.Extra) == len(k.Fam.KeySorts) {
				args := append([]*Term(nil), k.Args...)
				for i, e := range k.Extra {
					want := k.Fam.KeySorts[len(k.Args)+i]
					t := x.coerceKeyArg(e, want)
					if t == nil {
						return nil, false
					}
					args = append(args, t)
				}
				return &KeyVal{Fam: k.Fam, Args: args}, true
			}
			return nil, false
		}
		return k, true
	case *Term:
		if k.kind == tSym && strings.HasPrefix(k.Name, "global:") {
			if fam, ok := x.prog.families[k.Name]; ok {
				return &KeyVal{Fam: fam}, true
			}
		}
		if k.kind == tUF && k.Op == "bytes_of_str" && k.Args[0].kind == tSym && strings.HasPrefix(k.Args[0].Name, "str:") {
			var lit string
			fmt.Sscanf(k.Args[0].Name[4:], "%q", &lit)
			if fam, ok := x.prog.families["const:"+lit]; ok {
				return &KeyVal{Fam: fam}, true
			}
		}
	case *EncVal:
		return x.asKey(st, k.V)
	}
	return nil, false
}

func (x *Exec) coerceKeyArg(e Val, want *Sort) *Term {
	switch v := e.(type) {
	case *Term:
		if v.Sort == want {
			return v
		}
		if want == SStr && v.Sort == SBytes {
			return strOfBytes(v)
		}
		if want == SBytes && v.Sort == SStr {
			return bytesOfStr(v)
		}
	case *EncVal:
		if v.V.Sort == want {
			return v.V
		}
	case *BufVal, *BufView:
		// a byte buffer assembled piecewise (ids built with make/copy/PutUint64): its abstract content
		if want == SBytes && x.curState != nil {
			if bv, ok := v.(*BufVal); ok {
				return x.bufBytes(x.curState, bv)
			}
		}
	}
	return nil
}
