package main

import (
	"os"
	"fmt"
	"go/types"
	"strings"

	"golang.org/x/tools/go/ssa"
)

type callCont struct {
	st    *State
	val   Val
	panic bool
	desc  string
}

// TheoryFn gives semantics to a dependency function. It may add facts/panic sites to st.
type TheoryFn func(x *Exec, f *Frame, st *State, c *CallInfo) Val

type CallInfo struct {
	x      *Exec
	st     *State
	Name   string
	Args   []Val
	Instr  ssa.CallInstruction
	Common *ssa.CallCommon
	Pos    string
	ResTyp types.Type
}

func (c *CallInfo) T(i int) *Term {
	if i >= len(c.Args) {
		return nil
	}
	t, _ := c.Args[i].(*Term)
	if t == nil && c.x != nil {
		// pointer to an integer-like cell (*big.Int): read it
		if pv, ok := c.Args[i].(*PtrVal); ok {
			if v, ok := c.x.load(c.st, pv).(*Term); ok {
				return v
			}
		}
		if iv, ok := c.Args[i].(*IfaceVal); ok {
			if v, ok := iv.Dyn.(*Term); ok {
				return v
			}
		}
		// raw bytes read from the store (e.g. an address stored as is)
		if ev, ok := c.Args[i].(*EncVal); ok && ev.Enc == "raw" && ev.V != nil && ev.V.Sort == SBytes {
			if ev.Nil == nil || ev.Nil.IsFalse() {
				return ev.V
			}
			return Ite(ev.Nil, BytesNil, ev.V)
		}
	}
	return t
}

func single(st *State, v Val) []callCont { return []callCont{{st: st, val: v}} }

func (x *Exec) doCall(f *Frame, st *State, instr ssa.CallInstruction, cc *ssa.CallCommon) []callCont {
	var args []Val
	info := &CallInfo{x: x, st: st, Instr: instr, Common: cc, Pos: x.pos(instr.Pos())}
	if v := instr.Value(); v != nil {
		info.ResTyp = v.Type()
	}
	if cc.IsInvoke() {
		recv := x.value(f, st, cc.Value)
		args = append(args, recv)
		for _, a := range cc.Args {
			args = append(args, x.value(f, st, a))
		}
		info.Args = args
		iname := ifaceName(cc.Value.Type())
		info.Name = iname + "." + cc.Method.Name()
		// dynamic dispatch on known dynamic type
		if iv, ok := recv.(*IfaceVal); ok {
			if fn := x.prog.lookupMethod(iv.Type, cc.Method); fn != nil {
				nargs := append([]Val{iv.Dyn}, args[1:]...)
				return x.callFunction(f, st, fn, nargs, nil, info)
			}
		}
		if th, ok := theory[info.Name]; ok {
			x.assumed[info.Name] = true
			return single(st, th(x, f, st, info))
		}
		// try by method name with wildcard interface
		if th, ok := theory["*."+cc.Method.Name()]; ok && ifaceWildcardOK(iname) {
			x.assumed[info.Name] = true
			return single(st, th(x, f, st, info))
		}
		// a keeper of another module: it cannot write this module's store (separate store keys, A-MODSEP);
		// it may move coins, so the bank ledger is havocked, and its result is unconstrained
		if strings.HasSuffix(iname, "Keeper") {
			x.assumed["foreign keeper (A-MODSEP: result unconstrained, bank ledger havocked): "+info.Name] = true
			st.world = st.world.clone()
			st.world.havoc(x, "bal")
			st.world.havoc(x, "supply")
			if st.world.get("svcEpoch") != nil && strings.HasPrefix(iname, "ServiceKeeper") {
				st.world.havoc(x, "svcEpoch") // the service module's own state may have changed
			}
			if info.ResTyp == nil {
				return single(st, nil)
			}
			// results are named by method and call ordinal so that contracts can refer to them: foreign("M", n, i)
			top := f.top()
			n := top.callCount["foreign:"+cc.Method.Name()] + 1
			top.callCount["foreign:"+cc.Method.Name()] = n
			return single(st, x.foreignResult(st, info.ResTyp, cc.Method.Name(), n))
		}
		return x.unknownCall(f, st, info)
	}
	for _, a := range cc.Args {
		args = append(args, x.value(f, st, a))
	}
	info.Args = args
	switch callee := cc.Value.(type) {
	case *ssa.Builtin:
		info.Name = "builtin." + callee.Name()
		return x.builtin(f, st, callee, info)
	case *ssa.Function:
		info.Name = callee.String()
		return x.callFunction(f, st, callee, args, nil, info)
	case *ssa.MakeClosure:
		cv := x.value(f, st, callee).(*ClosureVal)
		info.Name = cv.Fn.String()
		return x.callFunction(f, st, cv.Fn, args, cv.Bindings, info)
	default:
		fv := x.value(f, st, cc.Value)
		switch c := fv.(type) {
		case *ClosureVal:
			info.Name = c.Fn.String()
			return x.callFunction(f, st, c.Fn, args, c.Bindings, info)
		case *FuncVal:
			info.Name = c.Fn.String()
			return x.callFunction(f, st, c.Fn, args, nil, info)
		}
		// A-CALLBACK: a value of a named callback type of the repository (types.StateCallback, types.ResponseCallback)
		// is a handler registered by another module: it is taken to be registered (non-nil) and to leave this module's
		// store, the bank ledger of this module's accounts and the caller's memory untouched
		if nt, ok := types.Unalias(cc.Value.Type()).(*types.Named); ok && strings.HasSuffix(nt.Obj().Name(), "Callback") && nt.Obj().Pkg() != nil && x.prog.isRepoPkg(nt.Obj().Pkg().Path()) {
			x.assumed["A-CALLBACK: call of a registered "+nt.Obj().Name()+" at "+info.Pos+" has no effect on this module's state"] = true
			st.cbWorld = st.world.clone()
			if info.ResTyp == nil {
				return single(st, nil)
			}
			return single(st, x.freshVal(st, info.ResTyp, "r_callback"))
		}
		info.Name = "dynamic:" + cc.Value.Name()
		return x.unknownCall(f, st, info)
	}
}

func ifaceName(t types.Type) string {
	t = types.Unalias(t)
	if n, ok := t.(*types.Named); ok {
		if n.Obj().Pkg() != nil {
			// use only the type name for keeper-style interfaces declared per module
			return n.Obj().Name()
		}
		return n.Obj().Name()
	}
	return types.TypeString(t, nil)
}

func ifaceWildcardOK(name string) bool { return true }

func (x *Exec) callFunction(f *Frame, st *State, fn *ssa.Function, args []Val, bindings []Val, info *CallInfo) []callCont {
	name := fn.String()
	info.Name = name
	if x.rawKeys && os.Getenv("GOVC_TRACE") != "" {
		fmt.Fprintf(os.Stderr, "rawkeys call %s\n", name)
	}
	if x.rawKeys {
		// key-layout audit: the byte-order primitives keep their identity (see keylayout.go, L3)
		if th, ok := rawKeyTheory[name]; ok {
			return single(st, th(x, f, st, info))
		}
	}
	// synthetic wrappers ($bound, $thunk): inline always
	if th, ok := theory[name]; ok {
		x.assumed[name] = true
		return single(st, th(x, f, st, info))
	}
	// generic instantiations: match on origin
	if o := fn.Origin(); o != nil {
		if th, ok := theory[o.String()]; ok {
			x.assumed[o.String()] = true
			return single(st, th(x, f, st, info))
		}
	}
	if x.prog.isRepoFunc(fn) {
		// key constructors of declared families
		if !x.rawKeys {
			if kv, ok := x.prog.keyCall(x, st, fn, args); ok {
				return single(st, kv)
			}
		}
		if c := x.prog.contractFor(fn); c != nil && !c.Inline {
			c.used = true
			return x.applyContract(f, st, fn, c, args, info)
		}
		if fn.Blocks != nil {
			x.inlined[x.prog.funcKey(fn)] = true
			outs := x.runFunction(fn, args, bindings, st, f, nil)
			var conts []callCont
			for _, o := range outs {
				if o.panic {
					conts = append(conts, callCont{st: o.st, panic: true, desc: o.desc})
					continue
				}
				var v Val
				switch len(o.rets) {
				case 0:
					v = nil
				case 1:
					v = o.rets[0]
				default:
					v = &TupleVal{o.rets}
				}
				conts = append(conts, callCont{st: o.st, val: v})
			}
			if len(conts) == 0 && len(x.errs) == 0 && len(outs) == 0 {
				// all paths infeasible
				return []callCont{}
			}
			return conts
		}
	}
	if fn.Synthetic != "" && fn.Blocks != nil && (strings.Contains(fn.Synthetic, "bound method") || strings.Contains(fn.Synthetic, "thunk") || strings.Contains(fn.Synthetic, "wrapper")) {
		outs := x.runFunction(fn, args, bindings, st, f, nil)
		var conts []callCont
		for _, o := range outs {
			if o.panic {
				conts = append(conts, callCont{st: o.st, panic: true, desc: o.desc})
				continue
			}
			var v Val
			switch len(o.rets) {
			case 0:
			case 1:
				v = o.rets[0]
			default:
				v = &TupleVal{o.rets}
			}
			conts = append(conts, callCont{st: o.st, val: v})
		}
		return conts
	}
	return x.unknownCall(f, st, info)
}

// unknownCall: a call we have no semantics for. If it can touch tracked state (receives the context, a
// keeper, a store or a pointer to tracked memory) the whole world and the pointed-to memory are havocked.
func (x *Exec) unknownCall(f *Frame, st *State, info *CallInfo) []callCont {
	// generated protobuf getter of a dependency type: (*T).GetX() on a non-nil receiver returns field X
	if ln := lastName(info.Name); strings.HasPrefix(ln, "Get") && len(info.Args) == 1 &&
		(strings.Contains(info.Name, "gogoproto/types.") || strings.Contains(info.Name, "cosmossdk.io/x/nft.")) {
		var cur *Term
		switch a := info.Args[0].(type) {
		case *PtrVal:
			cur, _ = x.load(st, a).(*Term)
		case *Term:
			cur = a
		}
		if cur != nil && cur.Sort.Kind == KData {
			if i := cur.Sort.FieldIndex(ln[3:]); i >= 0 {
				x.assumed["protobuf getter "+info.Name] = true
				return single(st, SelField(cur, i))
			}
		}
	}
	touches := false
	for _, a := range info.Args {
		switch v := a.(type) {
		case *OpaqueVal:
			if v.Type != nil && isStateful(v.Type) {
				touches = true
			}
		case *PtrVal:
			if _, isGlobal := x.prog.globalObjs[v.Obj]; !isGlobal {
				// havoc pointee
				if cur, ok := st.mem[v.Obj]; ok {
					if t, ok := cur.(*Term); ok {
						st.mem[v.Obj] = x.freshTerm("havoc_"+v.Obj.name, t.Sort)
					}
				}
			}
		case *IfaceVal:
			if ov, ok := v.Dyn.(*OpaqueVal); ok && ov.Type != nil && isStateful(ov.Type) {
				touches = true
			}
		case *StoreVal, *IterVal:
			touches = true
		}
	}
	key := info.Name
	if touches {
		key += " [havocs world]"
		st.world = st.world.havocAll(x)
	}
	x.unknown[key] = true
	if info.ResTyp == nil {
		return single(st, nil)
	}
	return single(st, x.freshVal(st, info.ResTyp, "r_"+lastName(info.Name)))
}

func lastName(s string) string {
	if i := strings.LastIndexAny(s, "./)"); i >= 0 && i+1 < len(s) {
		return s[i+1:]
	}
	return s
}

func isStateful(t types.Type) bool {
	s := types.TypeString(t, nil)
	return strings.Contains(s, "types.Context") || strings.Contains(s, "context.Context") || strings.Contains(s, "Keeper") || strings.Contains(s, "KVStore") || strings.Contains(s, "keeper.")
}

func (x *Exec) builtin(f *Frame, st *State, b *ssa.Builtin, info *CallInfo) []callCont {
	switch b.Name() {
	case "ssa:wrapnilchk":
		// wrapper-method nil check of the receiver: the receiver itself (receivers here are never nil)
		return single(st, info.Args[0])
	case "len":
		switch v := info.Args[0].(type) {
		case *OpaqueVal:
			return single(st, x.opaqueLen(st, v))
		case *Term:
			switch {
			case isSliceSort(v.Sort):
				// the length of any Go slice is a non-negative int (lists nested deeply inside a parameter are beyond
				// the depth the type invariant is unfolded to)
				st.assume(lenRange(SelField(v, 0)))
				return single(st, SelField(v, 0))
			case v.Sort == SStr:
				l := UF("str_len", SInt, v)
				st.assume(lenRange(l))
				st.assume(Eq(UF("str_len", SInt, StrEmpty), IntLit(0)))
				return single(st, l)
			case v.Sort == SBytes:
				l := UF("bytes_len", SInt, v)
				st.assume(lenRange(l))
				st.assume(Eq(UF("bytes_len", SInt, BytesNil), IntLit(0)))
				return single(st, l)
			case v.Sort == SCoins:
				l := UF("coins_len", SInt, v)
				st.assume(lenRange(l))
				return single(st, l)
			case isMapSort(v.Sort):
				l := UF("map_len<"+v.Sort.Name+">", SInt, v)
				st.assume(lenRange(l))
				return single(st, l)
			}
		case *GoSlice:
			return single(st, IntLit(int64(len(v.Elems))))
		case *EncVal:
			// len(bz) == 0 <=> nil (A-CODEC: stored encodings are non-empty)
			l := x.freshTerm("enclen", SInt)
			st.assume(lenRange(l))
			st.assume(Eq(Eq(l, IntLit(0)), v.Nil))
			return single(st, l)
		case *BufVal:
			return single(st, v.Len)
		case *KeyVal:
			l := x.freshTerm("keylen", SInt)
			st.assume(Gt(l, IntLit(0)))
			return single(st, l)
		case *MapRef:
			cur := st.mem[v.Obj].(*Term)
			l := UF("map_len<"+cur.Sort.Name+">", SInt, cur)
			st.assume(lenRange(l))
			return single(st, l)
		case *NilPtr:
			return single(st, IntLit(0))
		}
		r := x.freshTerm("len", SInt)
		st.assume(Ge(r, IntLit(0)))
		return single(st, r)
	case "cap":
		r := x.freshTerm("cap", SInt)
		st.assume(Ge(r, IntLit(0)))
		return single(st, r)
	case "append":
		return single(st, x.appendBuiltin(f, st, info))
	case "copy":
		var dst *BufVal
		var off *Term
		switch d := info.Args[0].(type) {
		case *BufVal:
			dst = d
		case *BufView:
			dst, off = d.Buf, d.Lo
		}
		if dst != nil {
			if src := x.asBytes(st, info.Args[1]); src != nil {
				dst.Parts = append(dst.Parts, bufPart{Off: off, Val: src})
			}
		}
		r := x.freshTerm("copied", SInt)
		return single(st, r)
	case "panic":
		return []callCont{{st: st, panic: true, desc: "panic at " + info.Pos}}
	case "delete":
		if mr, ok := info.Args[0].(*MapRef); ok {
			if k, ok := info.Args[1].(*Term); ok {
				cur := st.mem[mr.Obj].(*Term)
				st.mem[mr.Obj] = Con(cur.Sort, Store(SelField(cur, 0), k, False), SelField(cur, 1))
				return single(st, nil)
			}
		}
		x.errorf("unsupported delete")
		return nil
	case "min", "max":
		a, b2 := info.T(0), info.T(1)
		if a != nil && b2 != nil && len(info.Args) == 2 {
			if b.Name() == "min" {
				return single(st, Ite(Le(a, b2), a, b2))
			}
			return single(st, Ite(Ge(a, b2), a, b2))
		}
	case "print", "println":
		return single(st, nil)
	}
	x.errorf("unsupported builtin %s", b.Name())
	return nil
}

func (x *Exec) appendBuiltin(f *Frame, st *State, info *CallInfo) Val {
	base := info.Args[0]
	add := info.Args[1]
	rt := SortOf(info.ResTyp)
	// key construction: append(prefix, bytes...) handled by families elsewhere; here generic
	if rt == SBytes {
		if bb, ok := base.(*BufVal); ok {
			if ab := x.asBytes(st, add); ab != nil {
				return &BufVal{ID: x.freshName("buf"), Len: x.freshTerm("buflen", SInt), Parts: append(append([]bufPart(nil), bb.Parts...), bufPart{Val: ab})}
			}
		}
		bt, _ := base.(*Term)
		at, _ := add.(*Term)
		if bt == nil {
			// an encoded value (big-endian integer ...) as the base of an append is its byte string
			if ev, ok := base.(*EncVal); ok {
				bt = x.asBytes(st, ev)
			}
		}
		if bt != nil && bt == BytesNil {
			// appending to an empty byte slice yields the appended bytes
			if ab := x.asBytes(st, add); ab != nil {
				return ab
			}
		}
		if kv, ok := base.(*KeyVal); ok {
			return kv.appendBytes(x, add)
		}
		if bt != nil && at != nil && at.Sort == SBytes {
			return UF("bytes_concat", SBytes, bt, at)
		}
		if bt != nil {
			if ev, ok := add.(*EncVal); ok {
				if eb := x.asBytes(st, ev); eb != nil {
					return UF("bytes_concat", SBytes, bt, eb)
				}
			}
			// key-layout audit: a piecewise-filled buffer appended to a byte string
			if bv, ok := add.(*BufVal); ok && x.rawKeys {
				if eb := x.asBytes(st, bv); eb != nil {
					return UF("bytes_concat", SBytes, bt, eb)
				}
			}
		}
		if bt != nil {
			if gs, ok := add.(*GoSlice); ok {
				cur := bt
				for _, e := range gs.Elems {
					et, _ := e.(*Term)
					if et == nil {
						return x.freshTerm("bytes", SBytes)
					}
					cur = UF("bytes_push", SBytes, cur, et)
				}
				return cur
			}
			if at != nil && at.Sort == SStr {
				return UF("bytes_concat", SBytes, bt, bytesOfStr(at))
			}
		}
		if _, ok := base.(*NilPtr); ok {
			if at != nil && at.Sort == SBytes {
				return at
			}
		}
		return x.freshTerm("bytes", SBytes)
	}
	if rt != nil && isSliceSort(rt) {
		var cur *Term
		switch b := base.(type) {
		case *Term:
			cur = b
		case *NilPtr:
			cur = ZeroOf(rt)
		case *GoSlice:
			// a slice literal ([]T{...}, possibly empty) as the base: the list of its elements
			cur = ZeroOf(rt)
			for _, e := range b.Elems {
				et, ok := e.(*Term)
				if !ok || et.Sort != rt.Fields[1].Sort.Elem {
					cur = nil
					break
				}
				ln := SelField(cur, 0)
				cur = Con(rt, Add(ln, IntLit(1)), Store(SelField(cur, 1), ln, et))
			}
		}
		if cur == nil {
			x.errorf("append to %T", base)
			return x.freshTerm("slice", rt)
		}
		switch a := add.(type) {
		case *GoSlice:
			for _, e := range a.Elems {
				if _, isT := e.(*Term); !isT && rt.Fields[1].Sort.Elem.Kind == KData {
					if u, isU := x.unboxElem(st, e).(*Term); isU && u.Sort == rt.Fields[1].Sort.Elem {
						e = u
					}
				}
				et, ok := e.(*Term)
				if !ok && rt.Fields[1].Sort.Elem == SBytes {
					if bt := x.asBytes(st, e); bt != nil {
						et, ok = bt, true
					}
				}
				if !ok {
					x.errorf("append of non-term element")
					return cur
				}
				ln := SelField(cur, 0)
				cur = Con(rt, Add(ln, IntLit(1)), Store(SelField(cur, 1), ln, et))
			}
			return cur
		case *Term:
			// append(a, b...) : concatenation, abstract
			if a.Sort == rt {
				r := UF("slice_concat<"+rt.Name+">", rt, cur, a)
				st.assume(Eq(SelField(r, 0), Add(SelField(cur, 0), SelField(a, 0))))
				return r
			}
		case *NilPtr:
			return cur
		}
		x.errorf("unsupported append form (%T)", add)
		return cur
	}
	// Go-side slices of opaque values
	if gs, ok := base.(*GoSlice); ok {
		if as, ok := add.(*GoSlice); ok {
			return &GoSlice{Elems: append(append([]Val(nil), gs.Elems...), as.Elems...)}
		}
	}
	if _, ok := base.(*NilPtr); ok {
		if as, ok := add.(*GoSlice); ok {
			return as
		}
	}
	// a list of values outside the model (interface elements): only its length is kept
	if as, ok := add.(*GoSlice); ok && rt == nil {
		var ln *Term
		switch b := base.(type) {
		case *OpaqueVal:
			ln = x.opaqueLen(st, b)
		case *NilPtr:
			ln = IntLit(0)
		}
		if ln != nil {
			r := &OpaqueVal{Name: "list", Type: info.ResTyp}
			if x.opaqueLens == nil {
				x.opaqueLens = map[*OpaqueVal]*Term{}
			}
			x.opaqueLens[r] = Add(ln, IntLit(int64(len(as.Elems))))
			return r
		}
	}
	if bt, ok := base.(*Term); ok && info.ResTyp != nil {
		if rs := SortOf(info.ResTyp); rs != nil && rs == bt.Sort && !isSliceSort(rs) {
			// a raw append to a named slice type the model gives a value sort of its own (sdk.Coins): the result need not
			// be a well-formed value of that type (unsorted, repeated or zero entries), so nothing is known about it
			return x.freshVal(st, info.ResTyp, "rawappend")
		}
	}
	x.errorf("unsupported append (%T, %T) -> %s", base, add, info.ResTyp)
	return &OpaqueVal{Name: "append"}
}

// applyContract: modular call — assert requires, havoc modifies, assume ensures.
func (x *Exec) applyContract(f *Frame, st *State, fn *ssa.Function, c *Contract, args []Val, info *CallInfo) []callCont {
	key := x.prog.funcKey(fn)
	if c.Trusted {
		x.assumed["trusted contract: "+key] = true
	}
	env := x.contractEnv(st, fn, c, args)
	pre := st.world
	env.old = pre
	env.cur = pre
	x.evalLets(env, c)
	cnt := f.top().callCount[key]
	f.top().callCount[key] = cnt + 1
	site := fmt.Sprintf("%s@%d", lastName(key), cnt+1)
	for _, r := range c.Requires {
		t, err := x.evalBool(env, r.Expr)
		if err != nil {
			x.errorf("%s: requires %s of %s: %v", x.unit.Name, r.Label, key, err)
			continue
		}
		x.oblige(st, "pre", site+":"+r.Label, info.Pos, t, "precondition "+r.Label+" of "+key+": "+r.Src)
		st.assume(t)
	}
	// havoc
	post := pre.clone()
	if c.ModAll {
		post = pre.havocAll(x)
	} else {
		for _, m := range c.Modifies {
			if strings.HasPrefix(m, "*") {
				continue // pointee of a parameter: handled below
			}
			post.havoc(x, m)
		}
	}
	if post.get("svcEpoch") != nil {
		// a callee that calls into another module's keeper has the bank ledger in its modifies clause (such calls
		// havoc it, and the callee's own frame obligations are checked): only then may the service state have moved
		callsOut := c.ModAll
		for _, m := range c.Modifies {
			if m == "bal" || m == "supply" {
				callsOut = true
			}
		}
		if callsOut {
			post.havoc(x, "svcEpoch")
		}
	}
	st.world = post
	// results
	var res Val
	sig := fn.Signature
	var rets []Val
	for i := 0; i < sig.Results().Len(); i++ {
		rets = append(rets, x.freshVal(st, sig.Results().At(i).Type(), fmt.Sprintf("%s_r%d", lastName(key), i)))
	}
	// a map handed to a function under contract may be updated by it: its content is unknown afterwards
	for _, a := range args {
		if mr, ok := a.(*MapRef); ok {
			if cur, ok := st.mem[mr.Obj].(*Term); ok {
				st.mem[mr.Obj] = x.freshTerm("callmap", cur.Sort)
			}
		}
	}
	// a callee that stores into the elements of a slice parameter changes what every variable of the caller holding
	// that slice sees (shared backing array): those variables keep their length, their elements are unknown afterwards
	// (the callee's postconditions speak about its results, not about the caller's other names for the same array)
	for i := range fn.Params {
		at, ok := args[i].(*Term)
		if !ok || !isSliceSort(at.Sort) || at.kind == tCon && len(at.Args) > 0 && at.Args[0].IsLit() && at.Args[0].Lit.Sign() == 0 {
			continue
		}
		if !x.prog.writesSliceElems(fn, i) {
			continue
		}
		var fresh *Term
		get := func() *Term {
			if fresh == nil {
				fresh = x.freshTerm("shared_"+fn.Params[i].Name(), at.Sort)
				st.assume(Eq(SelField(fresh, 0), SelField(at, 0)))
				x.assumed["elements of a slice written by callee "+lastName(key)+" are unknown to the caller afterwards (shared backing array)"] = true
			}
			return fresh
		}
		// (the registers of the calling function; variables of outer functions this one is inlined into are reached
		// through memory cells or not at all)
		for r, v := range f.regs {
			if vt, ok := v.(*Term); ok && vt == at {
				f.regs[r] = get()
			}
		}
		for o, v := range st.mem {
			if vt, ok := v.(*Term); ok && vt == at {
				st.mem[o] = get()
			}
		}
	}
	// pointer params: havoc pointees when contract says "modifies *param"
	for i, p := range fn.Params {
		for _, m := range c.Modifies {
			if m == "*"+p.Name() || m == "*"+c.paramAlias(fn, i) {
				if pv, ok := args[i].(*PtrVal); ok {
					if cur, ok := st.mem[pv.Obj].(*Term); ok {
						st.mem[pv.Obj] = x.freshTerm("mod_"+p.Name(), cur.Sort)
					}
				}
			}
		}
	}
	x.bindResults(env, fn, c, rets)
	env.cur = post
	env.st = st
	// free "any" constants (anydenom(k), anyaddr(k)) of the callee's postconditions were arbitrary in its proof:
	// at the call site they are universally quantified (unless the callee's requires mention them)
	reqAny := map[string]bool{}
	for _, r := range c.Requires {
		if t, err := x.evalBool(env, r.Expr); err == nil {
			for _, a := range anySyms(t) {
				reqAny[a.Name] = true
			}
		}
	}
	for _, e := range c.Ensures {
		t, err := x.evalBool(env, e.Expr)
		if err != nil {
			x.errorf("%s: ensures %s of %s: %v", x.unit.Name, e.Label, key, err)
			continue
		}
		for _, a := range anySyms(t) {
			if reqAny[a.Name] {
				continue
			}
			bv := NewBound(a.Name, a.Sort)
			t = Forall(bv, substitute(t, a, bv, map[*Term]*Term{}))
		}
		n0 := len(st.pc)
		st.assume(t)
		x.tagFrom(st, n0, lastName(key)+"."+e.Label)
	}
	switch len(rets) {
	case 0:
	case 1:
		res = rets[0]
	default:
		res = &TupleVal{rets}
	}
	if c.NoPanic == false && x.unit.Contract != nil && x.unit.Contract.NoPanic {
		x.oblige(st, "nopanic", "callee_"+lastName(key), info.Pos, False, "callee "+key+" is not nopanic")
	}
	return single(st, res)
}

func (f *Frame) top() *Frame {
	for f.parent != nil {
		f = f.parent
	}
	return f
}

// anySyms lists the free "any_*" constants occurring in t.
func anySyms(t *Term) []*Term {
	seen := map[*Term]bool{}
	var out []*Term
	var walk func(*Term)
	walk = func(u *Term) {
		if seen[u] {
			return
		}
		seen[u] = true
		if u.kind == tSym && (strings.HasPrefix(u.Name, "any_denom_") || strings.HasPrefix(u.Name, "any_addr_")) {
			out = append(out, u)
		}
		for _, a := range u.Args {
			walk(a)
		}
	}
	walk(t)
	return out
}

var foreignSyms = map[string]*Term{}

func (x *Exec) foreignResult(st *State, t types.Type, method string, n int) Val {
	mk := func(tt types.Type, i int) Val {
		name := fmt.Sprintf("fr_%s_%d_%d", method, n, i)
		if s := SortOf(tt); s != nil {
			v := Sym(name, s)
			foreignSyms[name] = v
			st.assume(TypeInv(v, tt, 0))
			return v
		}
		return x.freshVal(st, tt, name)
	}
	if tup, ok := t.(*types.Tuple); ok {
		tv := &TupleVal{}
		for i := 0; i < tup.Len(); i++ {
			tv.Elems = append(tv.Elems, mk(tup.At(i).Type(), i))
		}
		return tv
	}
	return mk(t, 0)
}
