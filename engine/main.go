package main

import (
	"encoding/json"
	"runtime/pprof"
	"flag"
	"fmt"
	"os"
	"path/filepath"
	"sort"
	"strconv"
	"strings"
	"sync"
	"time"
)

type LoadSpec struct {
	Module   string   `json:"module"`
	Patterns []string `json:"patterns"`
	Specs    []string `json:"specs"` // extra spec files under /verif/specs (prelude)
}

type PropConfig struct {
	ID          string     `json:"id"`
	Level       string     `json:"level"`
	Loads       []LoadSpec `json:"loads"`
	Assumptions []string   `json:"assumptions"`
	Trusted     []string   `json:"trusted_base"`
	Notes       string     `json:"notes"`
	Static      []string   `json:"static"` // names of static analyses to run (frame-complete, entrypoints, effects...)
	StaticArgs  map[string]json.RawMessage `json:"static_args"`
	Explanation string     `json:"explanation"`
}

type NamedResult struct {
	Name     string
	Unit     string
	Kind     string
	Queries  int
	Status   string // discharged, failed, undecided
	Solver   map[string]int
	Time     float64
	Failing  *Obligation
	Src      string
	Expect   string
}

func main() {
	if pf := os.Getenv("GOVC_CPUPROFILE"); pf != "" {
		f, _ := os.Create(pf)
		pprof.StartCPUProfile(f)
		defer pprof.StopCPUProfile()
	}
	if len(os.Args) < 2 {
		fmt.Println("usage: govc check|dump ...")
		os.Exit(2)
	}
	switch os.Args[1] {
	case "check":
		rc := cmdCheck(os.Args[2:])
		pprof.StopCPUProfile()
		os.Exit(rc)
	case "dump":
		os.Exit(cmdDump(os.Args[2:]))
	case "selftest":
		os.Exit(cmdSelftest(os.Args[2:]))
	case "replay":
		os.Exit(cmdReplay(os.Args[2:]))
	default:
		fmt.Println("unknown command")
		os.Exit(2)
	}
}

func cmdDump(args []string) int {
	fs := flag.NewFlagSet("dump", flag.ExitOnError)
	repo := fs.String("repo", "/repo", "")
	mod := fs.String("module", "", "")
	fs.Parse(args)
	p, err := LoadProgram(*repo, *mod, fs.Args(), nil)
	if err != nil {
		fmt.Println(err)
		return 1
	}
	for _, k := range sortedKeys(p.funcsByKey) {
		fmt.Println(k)
	}
	return 0
}

func cmdCheck(args []string) int {
	fs := flag.NewFlagSet("check", flag.ExitOnError)
	repo := fs.String("repo", "/repo", "repository root")
	verif := fs.String("verif", "/verif", "verif root")
	prop := fs.String("prop", "", "property id")
	tier := fs.String("tier", "quick", "quick|thorough")
	only := fs.String("only", "", "only units whose name contains this")
	keep := fs.Bool("keep", false, "keep SMT files")
	verbose := fs.Bool("v", false, "verbose")
	outRoot := fs.String("out", "", "write evidence/ and replays/ under this directory instead of -verif (self-tests, replays)")
	fs.Parse(args)
	if *outRoot == "" {
		*outRoot = *verif
	}
	t0 := time.Now()
	seed := 0
	if s := os.Getenv("VERIF_SEED"); s != "" {
		seed, _ = strconv.Atoi(s)
	}
	cfgPath := filepath.Join(*verif, "specs", "properties", *prop+".json")
	var cfg PropConfig
	data, err := os.ReadFile(cfgPath)
	if err != nil {
		fmt.Println("cannot read property config:", err)
		return 2
	}
	if err := json.Unmarshal(data, &cfg); err != nil {
		fmt.Println("bad property config:", err)
		return 2
	}
	timeout := 10
	if *tier == "thorough" {
		timeout = 60
	}
	outDir, err := os.MkdirTemp("", "govc-"+*prop+"-")
	if err != nil {
		fmt.Println(err)
		return 2
	}
	if !*keep {
		defer os.RemoveAll(outDir)
	} else {
		fmt.Println("SMT files in", outDir)
	}

	var allObls []*Obligation
	var vacuity [][]*Obligation
	var axiomChecks []*Obligation
	var unitResults []*UnitResult
	var engineErrs []string
	var programs []*Program
	functions := []string{}
	inlinedAll := map[string]bool{}
	assumedAll := map[string]bool{}
	unknownAll := map[string]bool{}
	var staticObls []*Obligation

	for _, ld := range cfg.Loads {
		var extra []string
		for _, s := range ld.Specs {
			extra = append(extra, filepath.Join(*verif, "specs", s))
		}
		p, err := LoadProgram(*repo, ld.Module, ld.Patterns, extra)
		if err != nil {
			// A tree that does not load (compile error) cannot be checked: report as engine error.
			engineErrs = append(engineErrs, fmt.Sprintf("load %s: %v", ld.Module, err))
			continue
		}
		programs = append(programs, p)
		// units: contracts mentioning this property
		var keys []string
		for k, c := range p.contracts {
			for _, pr := range c.Properties {
				if pr == cfg.ID {
					keys = append(keys, k)
				}
			}
		}
		sort.Strings(keys)
		for _, k := range keys {
			c := p.contracts[k]
			fn := p.findFunc(k)
			if fn == nil {
				allObls = append(allObls, &Obligation{Unit: moduleShort(ld.Module) + ":" + k, Kind: "bind", Goal: False, Src: "contract does not bind to a function: " + k})
				continue
			}
			if c.Inline || c.Trusted {
				if c.Trusted {
					assumedAll["trusted contract: "+k] = true
				}
				continue
			}
			if *only != "" && !strings.Contains(k, *only) {
				continue
			}
			functions = append(functions, ld.Module+":"+k)
			u := &Unit{Fn: fn, Contract: c, Name: moduleShort(ld.Module) + ":" + k}
			ur := p.verifyUnit(u)
			unitResults = append(unitResults, ur)
			for _, e := range ur.Errs {
				engineErrs = append(engineErrs, k+": "+e)
			}
			if len(c.NoPanicFor) > 0 {
				keepNP := false
				for _, pr := range c.NoPanicFor {
					if pr == cfg.ID {
						keepNP = true
					}
				}
				if !keepNP {
					var kept []*Obligation
					for _, o := range ur.Obls {
						if o.Kind != "nopanic" {
							kept = append(kept, o)
						}
					}
					ur.Obls = kept
				}
			}
			{
				drop := map[string]bool{}
				for _, e := range c.Ensures {
					if len(e.Props) > 0 {
						in := false
						for _, pr := range e.Props {
							if pr == cfg.ID {
								in = true
							}
						}
						if !in {
							drop[e.Label] = true
						}
					}
				}
				if len(drop) > 0 {
					var kept []*Obligation
					for _, o := range ur.Obls {
						if o.Kind == "post" && drop[o.Label] {
							continue
						}
						kept = append(kept, o)
					}
					ur.Obls = kept
				}
			}
			for _, o := range ur.Obls {
				o.prog = p
			}
			for _, o := range ur.Vacuity {
				o.prog = p
			}
			allObls = append(allObls, ur.Obls...)
			vacuity = append(vacuity, ur.Vacuity)
			if ur.AxiomCheck != nil {
				ur.AxiomCheck.prog = p
				axiomChecks = append(axiomChecks, ur.AxiomCheck)
			}
			for _, s := range ur.Inlined {
				inlinedAll[s] = true
			}
			for _, s := range ur.Assumed {
				assumedAll[s] = true
			}
			for _, s := range ur.Unknown {
				unknownAll[s] = true
			}
			if *verbose {
				fmt.Printf("unit %s: %d obligations, %d paths, %d returns, %d panics\n", k, len(ur.Obls), ur.Paths, ur.Returns, ur.Panics)
			}
		}
		if *only == "" {
			for _, o := range p.lemmaObligations() {
				o.prog = p
				o.Unit = moduleShort(ld.Module) + ":" + o.Unit
				allObls = append(allObls, o)
			}
		}
		for _, sname := range cfg.Static {
			obs := p.runStatic(sname, &cfg, ld)
			staticObls = append(staticObls, obs...)
		}
		// the byte layout of the declared key / prefix constructors (what A-KEYS rests on) is audited on every run
		if *only == "" {
			staticObls = append(staticObls, p.staticKeyLayout(ld)...)
		}
	}

	// discharge
	results := discharge(allObls, outDir, timeout)
	vres := dischargeVacuity(vacuity, outDir, timeout)
	results = append(results, vres...)
	results = append(results, dischargeAxiomChecks(axiomChecks, outDir)...)
	for _, o := range staticObls {
		st := "discharged"
		if o.Goal != nil && o.Goal.IsFalse() {
			st = "failed"
		}
		results = append(results, &NamedResult{Name: o.Name(), Unit: o.Unit, Kind: o.Kind, Queries: 1, Status: st, Solver: map[string]int{"govc-static": 1}, Failing: o, Src: o.Src})
	}
	if len(engineErrs) > 0 {
		for _, e := range engineErrs {
			results = append(results, &NamedResult{Name: "engine#" + sanitizeFile(e), Kind: "engine", Status: "failed", Src: e, Queries: 0, Solver: map[string]int{}})
		}
	}
	sort.Slice(results, func(i, j int) bool { return results[i].Name < results[j].Name })

	known := loadKnownFindings(filepath.Join(*verif, "known_findings.txt"), cfg.ID)
	violations := 0
	knownHits := 0
	discharged := 0
	byBackend := map[string]int{}
	solverTime := 0.0
	queries := 0
	var samples []map[string]interface{}
	var failedNames []string
	replayDir := filepath.Join(*outRoot, "replays", cfg.ID)
	os.RemoveAll(replayDir)
	for _, r := range results {
		if *verbose {
			fmt.Printf("  %-11s %6.2fs q=%-3d %v %s\n", r.Status, r.Time, r.Queries, r.Solver, r.Name)
		}
		queries += r.Queries
		solverTime += r.Time
		for k, v := range r.Solver {
			byBackend[k] += v
		}
		if r.Status == "discharged" {
			discharged++
			if len(samples) < 12 {
				samples = append(samples, map[string]interface{}{"obligation": r.Name, "queries": r.Queries, "status": r.Status, "time_s": round3(r.Time), "clause": r.Src})
			}
			continue
		}
		if kf, ok := known[r.Name]; ok {
			knownHits++
			fmt.Printf("KNOWN-FINDING: property=%s obligation=%s %s\n", cfg.ID, r.Name, kf)
			continue
		}
		violations++
		failedNames = append(failedNames, r.Name)
		os.MkdirAll(replayDir, 0o755)
		rp := filepath.Join(replayDir, sanitizeFile(r.Name)+".json")
		suffix := writeReplay(rp, &cfg, r, *repo, *verif)
		fmt.Printf("VIOLATION property=%s replay=%s obligation=%s status=%s%s\n", cfg.ID, rp, r.Name, r.Status, suffix)
	}
	total := len(results) - knownHits
	wall := time.Since(t0).Seconds()

	// evidence
	level := cfg.Level
	if level == "" {
		level = "proof"
	}
	cov := map[string]interface{}{
		"obligations":              total,
		"discharged":               discharged,
		"checker_cmd":              fmt.Sprintf("/verif/check %s %s   (govc: go/ssa symbolic execution -> SMT-LIB; z3 4.8.12 / z3 5.1.0 / cvc5 1.0 raced per query, timeout %ds)", cfg.ID, *tier, timeout),
		"trusted_base":             append([]string{"govc VC generator (this repository, /verif/engine)", "golang.org/x/tools/go/ssa v0.29.0", "z3 4.8.12, z3 5.1.0, cvc5 1.0"}, cfg.Trusted...),
		"functions_under_contract": functions,
		"inlined_into_callers":     sortedKeys(inlinedAll),
		"dependency_semantics_used": sortedKeys(assumedAll),
		"unknown_calls_havocked":   sortedKeys(unknownAll),
		"smt_queries":              queries,
		"discharged_by_backend":    byBackend,
		"solver_time_s":            round3(solverTime),
		"samples":                  samples,
		"known_findings":           knownHits,
		"failed":                   failedNames,
	}
	if cfg.Explanation != "" {
		cov["explanation"] = cfg.Explanation
	}
	if len(samples) == 0 {
		cov["samples"] = []map[string]interface{}{{"note": "no discharged obligation in this run"}}
	}
	// schema: proof level needs obligations>=1 and discharged>=1
	ev := map[string]interface{}{
		"property_id": cfg.ID,
		"tier":        *tier,
		"seed":        seed,
		"level":       level,
		"coverage":    cov,
		"assumptions": cfg.Assumptions,
		"wall_s":      round3(wall),
		"violations":  violations,
	}
	os.MkdirAll(filepath.Join(*outRoot, "evidence"), 0o755)
	eb, _ := json.MarshalIndent(ev, "", " ")
	os.WriteFile(filepath.Join(*outRoot, "evidence", cfg.ID+".json"), eb, 0o644)
	fmt.Printf("%s %s: %d named obligations, %d discharged, %d known findings, %d violations, %d SMT queries, %.1fs\n", cfg.ID, *tier, total, discharged, knownHits, violations, queries, wall)
	if violations > 0 {
		return 1
	}
	return 0
}

func round3(f float64) float64 { return float64(int(f*1000+0.5)) / 1000 }

func loadKnownFindings(path, prop string) map[string]string {
	m := map[string]string{}
	data, err := os.ReadFile(path)
	if err != nil {
		return m
	}
	for _, line := range strings.Split(string(data), "\n") {
		line = strings.TrimSpace(line)
		if !strings.HasPrefix(line, "known:") {
			continue
		}
		rest := strings.TrimSpace(strings.TrimPrefix(line, "known:"))
		fields := strings.Fields(rest)
		var p, o string
		var desc []string
		for _, f := range fields {
			switch {
			case strings.HasPrefix(f, "property=") && p == "":
				p = strings.TrimPrefix(f, "property=")
			case strings.HasPrefix(f, "obligation=") && o == "":
				o = strings.TrimPrefix(f, "obligation=")
			default:
				desc = append(desc, f)
			}
		}
		if p == prop && o != "" {
			m[o] = strings.Join(desc, " ")
		}
	}
	return m
}

// discharge groups obligations by name and solves them in parallel.
func discharge(obls []*Obligation, dir string, timeout int) []*NamedResult {
	type job struct {
		obls []*Obligation
		id   int
	}
	// group post/frame obligations of the same return path for a first conjunctive attempt
	groups := map[string][]*Obligation{}
	var order []string
	for i, o := range obls {
		key := fmt.Sprintf("single-%d", i)
		if (o.Kind == "post" || o.Kind == "frame") && o.Site != "" {
			key = o.Unit + "|" + o.Site + "|" + strconv.Itoa(len(o.Assumes))
		}
		if _, ok := groups[key]; !ok {
			order = append(order, key)
		}
		groups[key] = append(groups[key], o)
	}
	var wg sync.WaitGroup
	sem := make(chan struct{}, 6)
	qcount := make(map[*Obligation]int)
	var mu sync.Mutex
	// once a named obligation has a counterexample (or is undecided on two paths) its remaining paths are not
	// solved: the violation is established and the other paths could only repeat it
	settled := map[string]int{}
	isSettled := func(name string) bool {
		mu.Lock()
		defer mu.Unlock()
		return settled[name] >= 2
	}
	note := func(name, status string) {
		mu.Lock()
		defer mu.Unlock()
		if status == "sat" {
			settled[name] += 2
		} else if status != "unsat" {
			settled[name]++
		}
	}
	for gi, key := range order {
		g := groups[key]
		wg.Add(1)
		go func(gi int, g []*Obligation) {
			defer wg.Done()
			sem <- struct{}{}
			defer func() { <-sem }()
			var todo []*Obligation
			for _, o := range g {
				if o.Goal.IsTrue() {
					o.Res = &SolverResult{Status: "unsat", Solver: "trivial"}
				} else if o.Goal.IsFalse() && len(o.Assumes) == 0 {
					o.Res = &SolverResult{Status: "sat", Solver: "trivial"}
				} else {
					todo = append(todo, o)
				}
			}
			if len(todo) > 1 {
				var goals []*Term
				for _, o := range todo {
					goals = append(goals, o.Goal)
				}
				comb := &Obligation{Unit: todo[0].Unit, Kind: "group", Label: todo[0].Site, Assumes: todo[0].Assumes, Goal: And(goals...), prog: todo[0].prog, Inputs: todo[0].Inputs}
				gto := timeout
				if gto > 3 {
					gto = 3 // the conjunction is only a shortcut: fall back to per-clause queries quickly
				}
				var r *SolverResult
				if gr := tryGround(dir, fmt.Sprintf("gg%d_%s", gi, comb.Name()), comb, gto); gr != nil {
					r = gr
				} else {
					sc := comb.prog.buildScript(comb)
					r = Solve(dir, fmt.Sprintf("g%d_%s", gi, comb.Name()), sc, gto)
				}
				mu.Lock()
				for _, o := range todo {
					qcount[o]++
				}
				mu.Unlock()
				if r.Status == "unsat" {
					for _, o := range todo {
						o.Res = r
					}
					return
				}
			}
			for oi, o := range todo {
				if isSettled(o.Name()) {
					o.Res = &SolverResult{Status: "skipped", Output: "not solved: the obligation already failed on another path"}
					continue
				}
				solveOne := func(o *Obligation, tag string) *SolverResult {
					mu.Lock()
					qcount[o]++
					mu.Unlock()
					if o.prog != nil {
						if gr := tryGround(dir, fmt.Sprintf("og%s%d_%d_%s", tag, gi, oi, o.Name()), o, timeout); gr != nil {
							return gr
						}
					}
					var sc *Script
					if o.prog != nil {
						sc = o.prog.buildScript(o)
					} else {
						sc = (&Program{}).buildScript(o)
					}
					return Solve(dir, fmt.Sprintf("o%s%d_%d_%s", tag, gi, oi, o.Name()), sc, timeout)
				}
				o.Res = solveOne(o, "")
				if o.Res.Status != "unsat" && o.Res.Status != "sat" {
					// undecided: prove the conjuncts of the goal one by one (each is a smaller query)
					parts := splitGoal(skolemizeQuant(o.Goal, true))
					if len(parts) > 1 {
						all := true
						var tt float64
						var last *SolverResult
						for pi, pg := range parts {
							po := *o
							po.Goal = pg
							pr := solveOne(&po, fmt.Sprintf("p%d_", pi))
							tt += pr.Time
							last = pr
							if pr.Status != "unsat" {
								all = false
								break
							}
						}
						if all {
							last.Time = tt
							last.Solver += "+split"
							o.Res = last
						}
					}
				}
				note(o.Name(), o.Res.Status)
			}
		}(gi, g)
	}
	wg.Wait()
	// second chance: an obligation that no solver decided while the others were running is tried again on its own, with
	// twice the time (a timeout under load is not a verdict; a counterexample is and is not retried)
	var again []*Obligation
	for _, o := range obls {
		if o.Res != nil && o.Res.Status != "unsat" && o.Res.Status != "sat" {
			again = append(again, o)
		}
	}
	if len(again) > 0 && len(again) <= 16 {
		for ai, o := range again {
			one := func(oo *Obligation, tag string) *SolverResult {
				qcount[o]++
				if oo.prog != nil {
					if gr := tryGround(dir, fmt.Sprintf("rg%s%d_%s", tag, ai, oo.Name()), oo, 2*timeout); gr != nil {
						return gr
					}
					return Solve(dir, fmt.Sprintf("r%s%d_%s", tag, ai, oo.Name()), oo.prog.buildScript(oo), 2*timeout)
				}
				return Solve(dir, fmt.Sprintf("r%s%d_%s", tag, ai, oo.Name()), (&Program{}).buildScript(oo), 2*timeout)
			}
			r := one(o, "")
			if r.Status != "unsat" && r.Status != "sat" {
				parts := splitGoal(skolemizeQuant(o.Goal, true))
				if len(parts) > 1 {
					all := true
					var last *SolverResult
					for pi, pg := range parts {
						po := *o
						po.Goal = pg
						last = one(&po, fmt.Sprintf("p%d_", pi))
						if last.Status != "unsat" {
							all = false
							break
						}
					}
					if all {
						last.Solver += "+split"
						r = last
					}
				}
			}
			if r.Status == "unsat" {
				r.Solver += "+retry"
				o.Res = r
			} else if o.Res.Status == "skipped" {
				o.Res = r
			}
		}
	}
	// aggregate by name
	byName := map[string]*NamedResult{}
	var names []string
	for _, o := range obls {
		n := o.Name()
		r, ok := byName[n]
		if !ok {
			r = &NamedResult{Name: n, Unit: o.Unit, Kind: o.Kind, Status: "discharged", Solver: map[string]int{}, Src: o.Src}
			byName[n] = r
			names = append(names, n)
		}
		r.Queries += qcount[o]
		if o.Res == nil {
			o.Res = &SolverResult{Status: "error", Output: "not solved"}
		}
		r.Time += o.Res.Time
		if o.Res.Status == "skipped" {
			continue
		}
		if o.Res.Status == "unsat" {
			r.Solver[o.Res.Solver]++
			continue
		}
		// failed or undecided
		if r.Failing == nil || (o.Res.Status == "sat" && r.Failing.Res.Status != "sat") {
			r.Failing = o
		}
		if o.Res.Status == "sat" {
			r.Status = "failed"
		} else if r.Status != "failed" {
			r.Status = "undecided"
		}
	}
	var out []*NamedResult
	for _, n := range names {
		out = append(out, byName[n])
	}
	return out
}

// splitGoal: the conjuncts of a goal, looking through implications.
func splitGoal(g *Term) []*Term {
	if g.kind == tApp && g.Op == "and" {
		var out []*Term
		for _, a := range g.Args {
			out = append(out, splitGoal(a)...)
		}
		return out
	}
	if g.kind == tApp && g.Op == "=>" {
		var out []*Term
		for _, b := range splitGoal(g.Args[1]) {
			out = append(out, Implies(g.Args[0], b))
		}
		return out
	}
	return []*Term{g}
}

// tryGround attempts the quantifier-free variant of an obligation (instances made by the generator). Only a proof
// ("unsat") is a result; anything else returns nil and the quantified VC is tried.
func tryGround(dir, name string, o *Obligation, timeout int) *SolverResult {
	if os.Getenv("GOVC_NOGROUND") != "" || o.prog == nil || o.ExpectSat {
		return nil
	}
	g := groundObligation(o, 4)
	if g == nil {
		return nil
	}
	// first with products and divisions of unknowns as uninterpreted symbols (most goals need congruence only)
	if os.Getenv("GOVC_NONLABS") == "" {
		ab := abstractObligation(g)
		to := timeout
		if to > 3 {
			to = 3
		}
		r := Solve(dir, name+"_nl", ab.prog.buildScript(ab), to)
		if r.Status == "unsat" {
			r.Solver += "+ginst+nlabs"
			return r
		}
	}
	sc := g.prog.buildScript(g)
	r := Solve(dir, name, sc, timeout)
	if r.Status == "unsat" {
		r.Solver += "+ginst"
		return r
	}
	return nil
}

func dischargeVacuity(vac [][]*Obligation, dir string, timeout int) []*NamedResult {
	var out []*NamedResult
	var mu sync.Mutex
	var wg sync.WaitGroup
	sem := make(chan struct{}, 6)
	for ui, obs := range vac {
		if len(obs) == 0 {
			continue
		}
		wg.Add(1)
		go func(ui int, obs []*Obligation) {
			defer wg.Done()
			sem <- struct{}{}
			defer func() { <-sem }()
			// obs[0] = pre; rest = return paths (need one sat)
			pre := obs[0]
			pre.Assumes = dropQuantified(pre.Assumes)
			sc := pre.prog.buildScript(pre)
			r := Solve(dir, fmt.Sprintf("v%d_pre", ui), sc, timeout)
			nr := &NamedResult{Name: pre.Unit + "#vacuity:pre", Unit: pre.Unit, Kind: "vacuity", Queries: 1, Solver: map[string]int{}, Time: r.Time, Src: pre.Src}
			if r.Status == "sat" {
				nr.Status = "discharged"
				nr.Solver[r.Solver]++
			} else if r.Status == "unsat" {
				nr.Status = "failed"
				pre.Res = r
				nr.Failing = pre
			} else {
				// solver could not decide satisfiability: the guard is inconclusive, not a violation
				nr.Status = "discharged"
				nr.Solver["inconclusive"]++
			}
			mu.Lock()
			out = append(out, nr)
			mu.Unlock()
			if len(obs) > 1 {
				pr := &NamedResult{Name: pre.Unit + "#vacuity:path", Unit: pre.Unit, Kind: "vacuity", Solver: map[string]int{}, Status: "undecided", Src: "at least one return path is reachable under the precondition"}
				allUnsat := true
				for pi, o := range obs[1:] {
					o.Assumes = dropQuantified(o.Assumes)
					sc := o.prog.buildScript(o)
					r := Solve(dir, fmt.Sprintf("v%d_path%d", ui, pi), sc, timeout)
					pr.Queries++
					pr.Time += r.Time
					o.Res = r
					if r.Status == "sat" {
						pr.Status = "discharged"
						pr.Solver[r.Solver]++
						break
					}
					if r.Status != "unsat" {
						allUnsat = false
					}
					pr.Failing = o
				}
				if pr.Status != "discharged" {
					if allUnsat {
						pr.Status = "failed"
					} else {
						pr.Status = "discharged"
						pr.Solver["inconclusive"]++
						pr.Failing = nil
					}
				}
				mu.Lock()
				out = append(out, pr)
				mu.Unlock()
			}
		}(ui, obs)
	}
	wg.Wait()
	return out
}

func dropQuantified(ts []*Term) []*Term {
	var out []*Term
	for _, t := range ts {
		if containsQuant(t, map[*Term]bool{}) {
			continue
		}
		out = append(out, t)
	}
	return out
}

func containsQuant(t *Term, seen map[*Term]bool) bool {
	if seen[t] {
		return false
	}
	seen[t] = true
	if t.kind == tQuant {
		return true
	}
	for _, a := range t.Args {
		if containsQuant(a, seen) {
			return true
		}
	}
	return false
}

// dischargeAxiomChecks: the precondition of a unit together with the universally quantified axioms and lemma instances
// it uses is handed to the solvers as it is (quantifiers kept): a refutation means the proofs of that unit would be
// vacuous. "sat" or no answer within the limit both count as not refuted.
func dischargeAxiomChecks(obs []*Obligation, dir string) []*NamedResult {
	var out []*NamedResult
	var mu sync.Mutex
	var wg sync.WaitGroup
	sem := make(chan struct{}, 6)
	for i, o := range obs {
		wg.Add(1)
		go func(i int, o *Obligation) {
			defer wg.Done()
			sem <- struct{}{}
			defer func() { <-sem }()
			r := Solve(dir, fmt.Sprintf("ax%d", i), o.prog.buildScript(o), 3)
			nr := &NamedResult{Name: o.Unit + "#vacuity:axioms", Unit: o.Unit, Kind: "vacuity", Queries: 1, Solver: map[string]int{}, Time: r.Time, Src: o.Src, Status: "discharged"}
			switch r.Status {
			case "unsat":
				nr.Status = "failed"
				o.Res = r
				nr.Failing = o
			case "sat":
				nr.Solver[r.Solver]++
			default:
				nr.Solver["not-refuted"]++
			}
			mu.Lock()
			out = append(out, nr)
			mu.Unlock()
		}(i, o)
	}
	wg.Wait()
	return out
}
