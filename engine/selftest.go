package main

import (
	"encoding/json"
	"flag"
	"fmt"
	"os"
	"os/exec"
	"path/filepath"
	"sort"
	"strings"
)

// Must-fail corpus. For a property Cxx the corpus is
//   /verif/seeded/Cxx-*/patch_adapted.diff (or patch.diff): property-breaking changes written by independent agents
//   /verif/canaries/Cxx-*.fix.diff: the repository's own "fix:" commits, applied in reverse (the original defect)
// Each one is applied to a scratch copy of the repository's current working tree (outside /repo and /verif, removed
// afterwards) and the quick check is run on the copy; it has to report a violation. The outcome is written to
// /verif/evidence/Cxx.selftest.json; a missed entry is reported, it does not change the exit status of the check.

func cmdSelftest(args []string) int {
	fs := flag.NewFlagSet("selftest", flag.ExitOnError)
	repo := fs.String("repo", "/repo", "repository root")
	verif := fs.String("verif", "/verif", "verif root")
	prop := fs.String("prop", "", "property id")
	fs.Parse(args)
	type entry struct {
		Name    string `json:"name"`
		Patch   string `json:"patch"`
		Reverse bool   `json:"reverse"`
		Benign  bool   `json:"benign"` // behaviour-preserving edit: the check must stay quiet
		Outcome string `json:"outcome"` // caught | missed | not-applicable
		Detail  string `json:"detail"`
	}
	var entries []*entry
	seeded, _ := filepath.Glob(filepath.Join(*verif, "seeded", *prop+"-*"))
	sort.Strings(seeded)
	for _, d := range seeded {
		p := filepath.Join(d, "patch_adapted.diff")
		if _, err := os.Stat(p); err != nil {
			p = filepath.Join(d, "patch.diff")
		}
		base := filepath.Base(d)
		i := strings.LastIndex(base, "-")
		entries = append(entries, &entry{Name: base, Patch: p, Benign: i >= 0 && strings.HasPrefix(base[i+1:], "b")})
	}
	can, _ := filepath.Glob(filepath.Join(*verif, "canaries", *prop+"-*.fix.diff"))
	sort.Strings(can)
	for _, p := range can {
		entries = append(entries, &entry{Name: strings.TrimSuffix(filepath.Base(p), ".fix.diff") + " (fix reverted)", Patch: p, Reverse: true})
	}
	self, _ := os.Executable()
	caught, missed, quiet, falseAlarms := 0, 0, 0, 0
	// GOVC_SELFTEST_ONLY=<a,b,...>: run only the entries whose name contains one of these; the others keep the outcome
	// recorded by the last full run (an incremental run after new entries were added to the corpus)
	var only []string
	prev := map[string]*entry{}
	if o := os.Getenv("GOVC_SELFTEST_ONLY"); o != "" {
		only = strings.Split(o, ",")
		var old struct {
			Entries []*entry `json:"entries"`
		}
		if b, err := os.ReadFile(filepath.Join(*verif, "evidence", *prop+".selftest.json")); err == nil && json.Unmarshal(b, &old) == nil {
			for _, e := range old.Entries {
				prev[e.Name] = e
			}
		}
	}
	for _, e := range entries {
		if only != nil {
			sel := false
			for _, o := range only {
				if strings.Contains(e.Name, o) {
					sel = true
				}
			}
			if pe := prev[e.Name]; !sel && pe != nil {
				e.Outcome, e.Detail = pe.Outcome, pe.Detail
				switch e.Outcome {
				case "caught":
					caught++
				case "missed":
					missed++
				case "quiet":
					quiet++
				case "false-alarm":
					falseAlarms++
				}
				continue
			}
		}
		scratch, err := os.MkdirTemp("", "govc-selftest-")
		if err != nil {
			e.Outcome, e.Detail = "not-applicable", err.Error()
			continue
		}
		func() {
			defer os.RemoveAll(scratch)
			tree := filepath.Join(scratch, "repo")
			if out, err := exec.Command("rsync", "-a", "--exclude", ".git", strings.TrimSuffix(*repo, "/")+"/", tree+"/").CombinedOutput(); err != nil {
				e.Outcome, e.Detail = "not-applicable", "copy failed: "+string(out)
				return
			}
			applyArgs := []string{"apply", "--unsafe-paths", "-p1", "--directory", tree}
			if e.Reverse {
				applyArgs = append(applyArgs, "-R")
			}
			applyArgs = append(applyArgs, e.Patch)
			cmd := exec.Command("git", applyArgs...)
			cmd.Dir = scratch
			if out, err := cmd.CombinedOutput(); err != nil {
				// fall back to patch(1)
				pa := []string{"-p1", "-s", "-d", tree, "-i", e.Patch}
				if e.Reverse {
					pa = append(pa, "-R")
				}
				if out2, err2 := exec.Command("patch", pa...).CombinedOutput(); err2 != nil {
					e.Outcome, e.Detail = "not-applicable", "patch does not apply to the current tree: "+firstLines(string(out)+string(out2), 3)
					return
				}
			}
			c := exec.Command(self, "check", "-repo", tree, "-verif", *verif, "-prop", *prop, "-tier", "quick", "-out", filepath.Join(scratch, "out"))
			c.Env = append(os.Environ(), "GOFLAGS=-mod=mod")
			out, _ := c.CombinedOutput()
			var viol []string
			for _, l := range strings.Split(string(out), "\n") {
				if strings.HasPrefix(l, "VIOLATION") {
					f := strings.Fields(l)
					for _, w := range f {
						if strings.HasPrefix(w, "obligation=") {
							viol = append(viol, strings.TrimPrefix(w, "obligation="))
						}
					}
				}
			}
			if e.Benign {
				if len(viol) > 0 {
					e.Outcome, e.Detail = "false-alarm", strings.Join(viol, ", ")
					falseAlarms++
				} else {
					e.Outcome, e.Detail = "quiet", lastLine(string(out))
					quiet++
				}
			} else if len(viol) > 0 {
				e.Outcome, e.Detail = "caught", strings.Join(viol, ", ")
				caught++
			} else {
				e.Outcome, e.Detail = "missed", firstLines(string(out), 3)
				missed++
			}
		}()
	}
	rec := map[string]interface{}{"property": *prop, "entries": entries, "caught": caught, "missed": missed, "benign_quiet": quiet, "benign_false_alarms": falseAlarms,
		"note": "scratch copies of the working tree under the system temp directory, removed after each entry"}
	b, _ := json.MarshalIndent(rec, "", " ")
	os.MkdirAll(filepath.Join(*verif, "evidence"), 0o755)
	os.WriteFile(filepath.Join(*verif, "evidence", *prop+".selftest.json"), b, 0o644)
	for _, e := range entries {
		fmt.Printf("SELFTEST %s %s: %s\n", *prop, e.Name, e.Outcome)
	}
	fmt.Printf("SELFTEST %s: %d entries, %d caught, %d missed, %d behaviour-preserving edits quiet, %d false alarms\n", *prop, len(entries), caught, missed, quiet, falseAlarms)
	return 0
}

// replay: re-run what a replay file describes. With a recorded concrete replay (pure functions) the stored test is run
// again on the real package; otherwise the obligation's unit is re-checked and the result reported.
func cmdReplay(args []string) int {
	fs := flag.NewFlagSet("replay", flag.ExitOnError)
	repo := fs.String("repo", "/repo", "repository root")
	verif := fs.String("verif", "/verif", "verif root")
	prop := fs.String("prop", "", "property id")
	file := fs.String("file", "", "replay file")
	fs.Parse(args)
	data, err := os.ReadFile(*file)
	if err != nil {
		fmt.Println("cannot read replay file:", err)
		return 2
	}
	var rec map[string]interface{}
	if err := json.Unmarshal(data, &rec); err != nil {
		fmt.Println("bad replay file:", err)
		return 2
	}
	obl, _ := rec["obligation"].(string)
	fmt.Printf("obligation: %s\nstatus: %v\nclause: %v\n", obl, rec["status"], rec["clause"])
	if m, ok := rec["model"]; ok {
		mb, _ := json.Marshal(m)
		fmt.Printf("model: %s\n", mb)
	}
	if rs, ok := rec["replay_status"]; ok {
		fmt.Printf("recorded replay: %v - %v\n", rs, rec["replay_detail"])
	}
	if src, ok := rec["replay_test"].(string); ok && src != "" {
		if dir, ok := rec["replay_pkgdir"].(string); ok && dir != "" {
			tmp, err := os.MkdirTemp("", "govc-replay-")
			if err == nil {
				defer os.RemoveAll(tmp)
				tf := filepath.Join(tmp, "zz_verif_replay_test.go")
				os.WriteFile(tf, []byte(src), 0o644)
				ov, _ := json.Marshal(map[string]interface{}{"Replace": map[string]string{filepath.Join(dir, "zz_verif_replay_test.go"): tf}})
				of := filepath.Join(tmp, "overlay.json")
				os.WriteFile(of, ov, 0o644)
				cmd := exec.Command("go", "test", "-overlay", of, "-vet=off", "-count=1", "-timeout", "60s", "-run", "^TestVerifReplay", "-v", ".")
				cmd.Dir = dir
				cmd.Env = append(os.Environ(), "GOFLAGS=-mod=mod", "GOPROXY=off", "GOSUMDB=off", "GOTOOLCHAIN=local")
				out, _ := cmd.CombinedOutput()
				fmt.Printf("replayed on the real package (%s):\n%s\n", dir, grepLines(string(out), "VR_"))
			}
		}
	}
	// re-check the unit of the obligation on the current tree
	unit := obl
	if i := strings.Index(unit, "#"); i >= 0 {
		unit = unit[:i]
	}
	if i := strings.Index(unit, ":"); i >= 0 {
		unit = unit[i+1:]
	}
	if unit == "" || strings.HasPrefix(obl, "engine#") {
		return 1
	}
	tmp, err := os.MkdirTemp("", "govc-replayout-")
	if err != nil {
		return 2
	}
	defer os.RemoveAll(tmp)
	self, _ := os.Executable()
	c := exec.Command(self, "check", "-repo", *repo, "-verif", *verif, "-prop", *prop, "-tier", "quick", "-only", unit, "-out", tmp)
	c.Env = append(os.Environ(), "GOFLAGS=-mod=mod")
	out, _ := c.CombinedOutput()
	still := false
	for _, l := range strings.Split(string(out), "\n") {
		if strings.Contains(l, "obligation="+obl+" ") {
			still = true
			fmt.Println("current tree:", l)
		}
	}
	if still {
		return 1
	}
	fmt.Println("current tree: the obligation is discharged (or the function is no longer under that contract)")
	return 0
}

func lastLine(s string) string {
	ls := strings.Split(strings.TrimSpace(s), "\n")
	return ls[len(ls)-1]
}
