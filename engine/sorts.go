package main

import (
	"fmt"
	"go/types"
	"math/big"
	"strings"
)

// Mapping from Go types to SMT sorts. A nil result means "opaque" (not representable; handled
// Go-side as OpaqueVal).

var sortCache = map[types.Type]*Sort{}
var sortBusy = map[types.Type]bool{}

func typeKey(t types.Type) string { return types.TypeString(t, nil) }

func namedPath(t types.Type) string {
	if n, ok := t.(*types.Named); ok {
		obj := n.Obj()
		if obj.Pkg() != nil {
			return obj.Pkg().Path() + "." + obj.Name()
		}
		return obj.Name()
	}
	if a, ok := t.(*types.Alias); ok {
		return namedPath(types.Unalias(a))
	}
	return ""
}

func shortPkg(path string) string {
	parts := strings.Split(path, "/")
	if len(parts) >= 2 {
		parts = parts[len(parts)-2:]
	}
	s := strings.Join(parts, "_")
	s = strings.NewReplacer(".", "_", "-", "_").Replace(s)
	return s
}

var two64 = new(big.Int).Lsh(big.NewInt(1), 64)
var two63 = new(big.Int).Lsh(big.NewInt(1), 63)
var two32 = new(big.Int).Lsh(big.NewInt(1), 32)
var two31 = new(big.Int).Lsh(big.NewInt(1), 31)

func SortOf(t types.Type) *Sort {
	t = types.Unalias(t)
	if s, ok := sortCache[t]; ok {
		return s
	}
	if sortBusy[t] {
		return nil // recursive type: opaque
	}
	sortBusy[t] = true
	s := sortOf(t)
	delete(sortBusy, t)
	sortCache[t] = s
	return s
}

func sortOf(t types.Type) *Sort {
	switch namedPath(t) {
	case "cosmossdk.io/math.Int", "cosmossdk.io/math.Uint":
		return SInt
	case "cosmossdk.io/math.LegacyDec":
		return SDec
	case "github.com/cosmos/cosmos-sdk/types.Coin":
		return SCoin
	case "github.com/cosmos/cosmos-sdk/types.Coins":
		return SCoins
	case "github.com/cosmos/cosmos-sdk/types.DecCoin":
		return DataSort("DecCoin", []Field{{"Denom", SStr}, {"Amount", SDec}})
	case "github.com/cosmos/cosmos-sdk/types.DecCoins":
		return ArraySort(SStr, SInt)
	case "time.Time", "time.Duration":
		return SInt
	case "math/big.Int":
		return SInt
	case "math/big.Rat":
		return SReal
	case "github.com/cosmos/cosmos-sdk/types.Context", "context.Context":
		return nil
	}
	switch u := t.Underlying().(type) {
	case *types.Basic:
		switch {
		case u.Info()&types.IsBoolean != 0:
			return SBool
		case u.Info()&types.IsInteger != 0:
			return SInt
		case u.Info()&types.IsFloat != 0:
			return SReal
		case u.Info()&types.IsString != 0:
			return SStr
		case u.Kind() == types.UntypedNil:
			return nil
		}
		return nil
	case *types.Slice:
		if b, ok := u.Elem().Underlying().(*types.Basic); ok && b.Kind() == types.Byte {
			return SBytes
		}
		es := SortOf(u.Elem())
		if es == nil {
			// a list of pointers to message-like structs ([]*Log): each element is an optional value (A-PTRFIELD)
			if pt, ok := u.Elem().Underlying().(*types.Pointer); ok {
				if _, isStruct := pt.Elem().Underlying().(*types.Struct); isStruct && namedPath(pt.Elem()) != "" {
					if ps := SortOf(pt.Elem()); ps != nil && ps.Kind == KData {
						return SliceSort(PtrSort(ps))
					}
				}
			}
			// a list of interface values all of one implementation type (the only type the loaded code converts to
			// that interface): the list of those values
			if impl := ifaceImpl(u.Elem()); impl != nil {
				if ps := SortOf(derefType(impl)); ps != nil && ps.Kind == KData {
					return SliceSort(ps)
				}
			}
			return nil
		}
		return SliceSort(es)
	case *types.Array:
		if b, ok := u.Elem().Underlying().(*types.Basic); ok && b.Kind() == types.Byte {
			return SBytes
		}
		es := SortOf(u.Elem())
		if es == nil {
			return nil
		}
		return SliceSort(es)
	case *types.Map:
		ks, vs := SortOf(u.Key()), SortOf(u.Elem())
		if ks == nil || vs == nil {
			return nil
		}
		return MapSort(ks, vs)
	case *types.Pointer:
		if namedPath(u.Elem()) == "math/big.Int" {
			return SInt
		}
		if namedPath(u.Elem()) == "math/big.Rat" {
			return SReal
		}
		return nil
	case *types.Interface:
		if namedPath(t) == "error" || types.Identical(t, types.Universe.Lookup("error").Type()) {
			return SErr
		}
		return nil
	case *types.Struct:
		name := namedPath(t)
		if name == "" {
			return nil
		}
		n := t.(*types.Named)
		sname := shortPkg(n.Obj().Pkg().Path()) + "_" + n.Obj().Name()
		var fields []Field
		for i := 0; i < u.NumFields(); i++ {
			f := u.Field(i)
			fs := SortOf(f.Type())
			if est, ok := f.Type().Underlying().(*types.Struct); ok && est.NumFields() == 0 {
				fs = SBool
			}
			if fs == nil {
				// a pointer to a message struct inside a data struct is an optional value (nil flag + pointee): the
				// pointee is read, never shared (A-PTRFIELD); other pointer / interface fields are opaque references
				if pt, ok := f.Type().Underlying().(*types.Pointer); ok {
					if _, isStruct := pt.Elem().Underlying().(*types.Struct); isStruct && strings.HasPrefix(namedPath(pt.Elem()), "mods.irisnet.org/") {
						if es := SortOf(pt.Elem()); es != nil && es.Kind == KData {
							fs = PtrSort(es)
						}
					}
				}
			}
			if fs == nil {
				switch f.Type().Underlying().(type) {
				case *types.Pointer, *types.Interface:
					fs = SRef
				default:
					return nil
				}
			}
			fields = append(fields, Field{f.Name(), fs})
		}
		return DataSort(sname, fields)
	}
	return nil
}

func SliceSort(es *Sort) *Sort {
	name := "Slice<" + es.Name + ">"
	return DataSort(name, []Field{{"len", SInt}, {"arr", ArraySort(SInt, es)}})
}

func MapSort(ks, vs *Sort) *Sort {
	name := "Map<" + ks.Name + "," + vs.Name + ">"
	return DataSort(name, []Field{{"has", ArraySort(ks, SBool)}, {"val", ArraySort(ks, vs)}})
}

func PtrSort(es *Sort) *Sort {
	return DataSort("Ptr<"+es.Name+">", []Field{{"isnil", SBool}, {"val", es}})
}

func isPtrSort(s *Sort) bool { return s != nil && s.Kind == KData && strings.HasPrefix(s.Name, "Ptr<") }

func isSliceSort(s *Sort) bool { return s != nil && s.Kind == KData && strings.HasPrefix(s.Name, "Slice<") }
func isMapSort(s *Sort) bool   { return s != nil && s.Kind == KData && strings.HasPrefix(s.Name, "Map<") }

var StrEmpty = Sym(`str:""`, SStr)
var BytesNil = Sym("bytes:nil", SBytes)
var ErrNil = Sym("err:nil", SErr)
var RefNil = Sym("ref:nil", SRef)

func StrConst(s string) *Term {
	return Sym(fmt.Sprintf("str:%q", s), SStr)
}

func ZeroOf(s *Sort) *Term {
	switch s.Kind {
	case KInt:
		return IntLit(0)
	case KBool:
		return False
	case KReal:
		return intern(&Term{kind: tRealLit, Name: "0.0", Sort: SReal})
	case KUninterp:
		switch s {
		case SStr:
			return StrEmpty
		case SBytes:
			return BytesNil
		case SErr:
			return ErrNil
		case SRef:
			return RefNil
		}
		return Sym("zero:"+s.Name, s)
	case KArray:
		return ConstArray(s, ZeroOf(s.Elem))
	case KData:
		if s == SDec {
			return Con(SDec, True, IntLit(0))
		}
		args := make([]*Term, len(s.Fields))
		for i, f := range s.Fields {
			args[i] = ZeroOf(f.Sort)
		}
		return Con(s, args...)
	}
	panic("zero of " + s.String())
}

// intRange returns (lo, hi) inclusive bounds for a Go integer type, or nil,nil when unbounded
// (math.Int etc.).
func intRange(t types.Type) (*big.Int, *big.Int) {
	b, ok := types.Unalias(t).Underlying().(*types.Basic)
	if !ok {
		return nil, nil
	}
	one := big.NewInt(1)
	switch b.Kind() {
	case types.Int, types.Int64:
		return new(big.Int).Neg(two63), new(big.Int).Sub(two63, one)
	case types.Uint, types.Uint64, types.Uintptr:
		return big.NewInt(0), new(big.Int).Sub(two64, one)
	case types.Int32:
		return new(big.Int).Neg(two31), new(big.Int).Sub(two31, one)
	case types.Uint32:
		return big.NewInt(0), new(big.Int).Sub(two32, one)
	case types.Int16:
		return big.NewInt(-32768), big.NewInt(32767)
	case types.Uint16:
		return big.NewInt(0), big.NewInt(65535)
	case types.Int8:
		return big.NewInt(-128), big.NewInt(127)
	case types.Uint8:
		return big.NewInt(0), big.NewInt(255)
	}
	return nil, nil
}

// TypeInv returns the facts that every value of Go type t satisfies in our encoding
// (machine integer ranges, non-negative lengths), for a term of that type.
func TypeInv(v *Term, t types.Type, depth int) *Term {
	t = types.Unalias(t)
	if depth > 4 {
		return True
	}
	switch namedPath(t) {
	case "cosmossdk.io/math.Int", "cosmossdk.io/math.LegacyDec", "github.com/cosmos/cosmos-sdk/types.Coin",
		"github.com/cosmos/cosmos-sdk/types.Coins", "time.Time", "math/big.Int",
		"github.com/cosmos/cosmos-sdk/types.DecCoin", "github.com/cosmos/cosmos-sdk/types.DecCoins":
		return True
	case "cosmossdk.io/math.Uint":
		return Ge(v, IntLit(0))
	}
	switch u := t.Underlying().(type) {
	case *types.Basic:
		if lo, hi := intRange(t); lo != nil && v.Sort == SInt {
			return And(Le(BigLit(lo), v), Le(v, BigLit(hi)))
		}
	case *types.Slice:
		if isSliceSort(v.Sort) {
			// lengths are non-negative ints (well below the int64 limit: a slice cannot hold 2^62 elements)
			return And(Ge(SelField(v, 0), IntLit(0)), Le(SelField(v, 0), BigLit(new(big.Int).Lsh(big.NewInt(1), 62))))
		}
	case *types.Struct:
		if v.Sort.Kind != KData {
			return True
		}
		var cs []*Term
		for i := 0; i < u.NumFields() && i < len(v.Sort.Fields); i++ {
			cs = append(cs, TypeInv(SelField(v, i), u.Field(i).Type(), depth+1))
		}
		return And(cs...)
	}
	return True
}

var ifaceImpls = map[string]map[string]types.Type{}

// ifaceImpl: the unique concrete type converted to interface type t in the loaded code, or nil. T and *T count as one
// implementation (the pointer form is returned when both occur).
func ifaceImpl(t types.Type) types.Type {
	t = types.Unalias(t)
	if !types.IsInterface(t) {
		return nil
	}
	m := ifaceImpls[types.TypeString(t, nil)]
	var base, res types.Type
	for _, v := range m {
		b := derefType(v)
		if base != nil && !types.Identical(base, b) {
			return nil
		}
		base = b
		if res == nil || v != b {
			res = v
		}
	}
	return res
}

func derefType(t types.Type) types.Type {
	if pt, ok := types.Unalias(t).Underlying().(*types.Pointer); ok {
		return pt.Elem()
	}
	return t
}
