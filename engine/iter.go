package main

import (
	"go/types"
	"strings"
	"fmt"
	"math/big"
)

// A-ITER: a prefix iterator enumerates, in some fixed order, exactly the keys of the family that are present when it
// is created and match the prefix, each once; writes during iteration do not disturb it.

var iterCounter int

func (x *Exec) newIterator(st *State, fam *Family, prefix []*Term, reverse bool, sel ...*KeyVal) Val {
	iterCounter++
	id := iterCounter
	snap := st.world.get(fam.Name)
	seq := x.freshTerm(fmt.Sprintf("it%d_seq", id), ArraySort(SInt, fam.KeySort))
	n := x.freshTerm(fmt.Sprintf("it%d_n", id), SInt)
	pos := fmt.Sprintf("it%d_pos", id)
	st.assume(Ge(n, IntLit(0)))
	st.assume(Le(n, BigLit(new(big.Int).Lsh(big.NewInt(1), 62))))
	var ppos []int
	var by []string
	if len(sel) > 0 && sel[0] != nil {
		ppos, by = sel[0].Pos, sel[0].By
	}
	match := func(k *Term) *Term {
		var cs []*Term
		for i, p := range prefix {
			switch {
			case by != nil:
				cs = append(cs, Eq(UF(by[i], p.Sort, k), p))
			case len(fam.KeySorts) == 1:
				cs = append(cs, Eq(k, p))
			case ppos != nil:
				cs = append(cs, Eq(SelField(k, ppos[i]), p))
			default:
				cs = append(cs, Eq(SelField(k, i), p))
			}
		}
		return And(cs...)
	}
	// (a) every enumerated key is present and matches; positions are consistent (hence keys are distinct)
	j := NewBound("j", SInt)
	kj := Select(seq, j)
	st.assume(Forall(j, Implies(And(Ge(j, IntLit(0)), Lt(j, n)), And(famHas(snap, kj), match(kj), Eq(UF(pos, SInt, kj), j)))))
	// (b) every present matching key is enumerated
	k := NewBound("k", fam.KeySort)
	pk := UF(pos, SInt, k)
	st.assume(Forall(k, Implies(And(famHas(snap, k), match(k)), And(Ge(pk, IntLit(0)), Lt(pk, n), Eq(Select(seq, pk), k)))))
	if st.iters == nil {
		st.iters = map[int]*IterState{}
	}
	st.iters[id] = &IterState{Fam: fam, Prefix: prefix, Seq: seq, N: n, Idx: IntLit(0), Reverse: reverse, Snap: snap}
	return &IterVal{ID: id}
}

func (x *Exec) iterOf(st *State, v Val) *IterState {
	if iv, ok := v.(*IterVal); ok {
		return st.iters[iv.ID]
	}
	if iv, ok := v.(*IfaceVal); ok {
		return x.iterOf(st, iv.Dyn)
	}
	return nil
}

func (x *Exec) iterKey(st *State, it *IterState) *KeyVal {
	k := Select(it.Seq, it.Idx)
	kv := &KeyVal{Fam: it.Fam}
	if len(it.Fam.KeySorts) > 1 {
		// eta: a tuple key is the tuple of its components (lets quantified facts about (q, i) pairs fire)
		var fs []*Term
		for i := range it.Fam.KeySorts {
			fs = append(fs, SelField(k, i))
		}
		st.assume(Eq(k, Con(it.Fam.KeySort, fs...)))
	}
	switch len(it.Fam.KeySorts) {
	case 0:
	case 1:
		kv.Args = []*Term{k}
	default:
		for i := range it.Fam.KeySorts {
			kv.Args = append(kv.Args, SelField(k, i))
		}
	}
	// a stored key was built by the key constructor from values of its parameter types: machine integers are in range
	if fn := x.prog.funcsByKey[it.Fam.KeyFunc]; fn != nil && len(fn.Params) == len(kv.Args) {
		for i, prm := range fn.Params {
			if _, isBasic := prm.Type().Underlying().(*types.Basic); isBasic && kv.Args[i].Sort == SInt {
				st.assume(TypeInv(kv.Args[i], prm.Type(), 0))
			}
		}
	}
	return kv
}

func init() {
	mkIter := func(reverse bool) TheoryFn {
		return func(x *Exec, f *Frame, st *State, c *CallInfo) Val {
			var fam *Family
			var prefix []*Term
			switch p := c.Args[1].(type) {
			case *KeyVal:
				fam, prefix = p.Fam, p.Args
			case *Term:
				if p.kind == tSym {
					fam = x.prog.prefixGlobals[p.Name]
				}
				// []byte("literal") as a prefix: declared as "prefix const:literal"
				if p.kind == tUF && p.Op == "bytes_of_str" && len(p.Args) == 1 && p.Args[0].kind == tSym && strings.HasPrefix(p.Args[0].Name, "str:") {
					var lit string
					if _, err := fmt.Sscanf(p.Args[0].Name[4:], "%q", &lit); err == nil {
						fam = x.prog.prefixGlobals["const:"+lit]
					}
				}
			case *EncVal:
			}
			if fam == nil {
				// over-approximation: an iterator whose prefix is not a declared family prefix yields arbitrary
				// keys and values, arbitrarily many (sound for properties of what is done with each element)
				x.assumed["opaque iterator over an undeclared key prefix at "+c.Pos+": elements unconstrained"] = true
				return &OpaqueVal{Name: "iterator"}
			}
			kvSel, _ := c.Args[1].(*KeyVal)
			return x.newIterator(st, fam, prefix, reverse, kvSel)
		}
	}
	theory["cosmossdk.io/store/types.KVStorePrefixIterator"] = mkIter(false)
	theory["cosmossdk.io/store/types.KVStoreReversePrefixIterator"] = mkIter(true)
	for _, in := range []string{"Iterator", "Iterator[[]byte,[]byte]"} {
		theory[in+".Valid"] = func(x *Exec, f *Frame, st *State, c *CallInfo) Val {
			it := x.iterOf(st, c.Args[0])
			if it == nil {
				return x.freshTerm("valid", SBool)
			}
			return Lt(it.Idx, it.N)
		}
		theory[in+".Next"] = func(x *Exec, f *Frame, st *State, c *CallInfo) Val {
			if it := x.iterOf(st, c.Args[0]); it != nil {
				it.Idx = Add(it.Idx, IntLit(1))
			}
			return nil
		}
		theory[in+".Key"] = func(x *Exec, f *Frame, st *State, c *CallInfo) Val {
			it := x.iterOf(st, c.Args[0])
			if it == nil {
				return x.freshTerm("key", SBytes)
			}
			x.panicSite(f, st, Not(Lt(it.Idx, it.N)), "iterator.Key on invalid iterator at "+c.Pos)
			return x.iterKey(st, it)
		}
		theory[in+".Value"] = func(x *Exec, f *Frame, st *State, c *CallInfo) Val {
			it := x.iterOf(st, c.Args[0])
			if it == nil {
				return &EncVal{Enc: "stored", V: x.freshTerm("val", SBytes), Nil: False}
			}
			x.panicSite(f, st, Not(Lt(it.Idx, it.N)), "iterator.Value on invalid iterator at "+c.Pos)
			kv := x.iterKey(st, it)
			return &EncVal{Enc: it.Fam.Enc, V: famGet(it.Snap, it.Fam.key(kv.Args)), Nil: False}
		}
		theory[in+".Close"] = func(x *Exec, f *Frame, st *State, c *CallInfo) Val {
			if c.ResTyp != nil && SortOf(c.ResTyp) == SErr {
				return ErrNil
			}
			return nil
		}
	}
}
