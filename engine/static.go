package main

import (
	"encoding/json"
	"fmt"
	"go/constant"
	"go/token"
	"go/types"
	"sort"
	"strings"

	"golang.org/x/tools/go/ssa"
)

// Static (generator-discharged) obligations: frame completeness, entry points, effects. Back end: govc-static.

func (p *Program) runStatic(name string, cfg *PropConfig, ld LoadSpec) []*Obligation {
	switch name {
	case "frame-complete":
		return p.staticFrameComplete(cfg, ld)
	case "entrypoints":
		return p.staticEntryPoints(cfg, ld)
	case "effects":
		return p.staticEffects(cfg, ld)
	}
	return []*Obligation{{Unit: "static", Kind: "static", Label: name, Goal: False, Src: "unknown static analysis " + name}}
}

type frameArgsList []frameArgs

type frameArgs struct {
	Unresolved     *bool               `json:"unresolved"` // check that every store write resolves to a declared family (default true)
	Families       map[string][]string `json:"families"`        // family -> functions allowed to write it directly
	AllowedUnknown []string            `json:"allowed_unknown"` // functions allowed to write with an unresolved key
	Bank           map[string][]string `json:"bank"`            // "mint","burn","send" -> functions allowed to call them directly
	Callers        map[string][]string `json:"callers"`         // function -> the only functions allowed to call it (setters of guarded state)
	Module         string              `json:"module"`
}

// resolveKeyFamily: which declared family does a store key value belong to ("" = unknown)?
func (p *Program) resolveKeyFamily(v ssa.Value, depth int) string {
	if depth > 6 {
		return ""
	}
	switch k := v.(type) {
	case *ssa.Call:
		if fn := k.Call.StaticCallee(); fn != nil {
			key := p.funcKey(fn)
			if fam, ok := p.families[key]; ok {
				return fam.Name
			}
			if fam, ok := p.prefixFns[key]; ok {
				return fam.Name
			}
			// append(prefix, ...) wrappers and helpers: look inside one level for a single family
			if p.isRepoFunc(fn) && fn.Blocks != nil {
				fams := map[string]bool{}
				for _, b := range fn.Blocks {
					for _, ins := range b.Instrs {
						if r, ok := ins.(*ssa.Return); ok && len(r.Results) == 1 {
							fams[p.resolveKeyFamily(r.Results[0], depth+1)] = true
						}
					}
				}
				if len(fams) == 1 {
					for f := range fams {
						return f
					}
				}
			}
		}
		if b, ok := k.Call.Value.(*ssa.Builtin); ok && b.Name() == "append" {
			return p.resolveKeyFamily(k.Call.Args[0], depth+1)
		}
	case *ssa.Convert:
		if c, ok := k.X.(*ssa.Const); ok && c.Value != nil && c.Value.Kind() == constant.String {
			if fam, ok := p.families["const:"+constant.StringVal(c.Value)]; ok {
				return fam.Name
			}
		}
		return p.resolveKeyFamily(k.X, depth+1)
	case *ssa.ChangeType:
		return p.resolveKeyFamily(k.X, depth+1)
	case *ssa.UnOp:
		if g, ok := k.X.(*ssa.Global); ok {
			if fam, ok := p.families["global:"+g.Pkg.Pkg.Name()+"."+g.Name()]; ok {
				return fam.Name
			}
		}
	case *ssa.Slice:
		return p.resolveKeyFamily(k.X, depth+1)
	case *ssa.Phi:
		fams := map[string]bool{}
		for _, e := range k.Edges {
			fams[p.resolveKeyFamily(e, depth+1)] = true
		}
		if len(fams) == 1 {
			for f := range fams {
				return f
			}
		}
	}
	return ""
}

type storeWrite struct {
	Func   string
	Family string
	Op     string
	Pos    string
}

func (p *Program) storeWrites() []storeWrite {
	var out []storeWrite
	x := &Exec{prog: p}
	for _, key := range sortedKeys(p.funcsByKey) {
		fn := p.funcsByKey[key]
		if fn.Blocks == nil || strings.HasSuffix(x.pos(fn.Pos()), "_test.go") {
			continue
		}
		for _, b := range fn.Blocks {
			for _, ins := range b.Instrs {
				ci, ok := ins.(ssa.CallInstruction)
				if !ok {
					continue
				}
				cc := ci.Common()
				var op string
				var keyArg ssa.Value
				if cc.IsInvoke() {
					in := ifaceName(cc.Value.Type())
					if (in == "KVStore" || in == "BasicKVStore") && (cc.Method.Name() == "Set" || cc.Method.Name() == "Delete") {
						op, keyArg = cc.Method.Name(), cc.Args[0]
					}
				} else if sc := cc.StaticCallee(); sc != nil {
					n := sc.String()
					if n == "(cosmossdk.io/store/prefix.Store).Set" || n == "(cosmossdk.io/store/prefix.Store).Delete" {
						op, keyArg = sc.Name(), cc.Args[1]
					}
				}
				if op == "" {
					continue
				}
				out = append(out, storeWrite{Func: key, Family: p.resolveKeyFamily(keyArg, 0), Op: op, Pos: x.pos(ins.Pos())})
			}
		}
	}
	return out
}

func (p *Program) staticFrameComplete(cfg *PropConfig, ld LoadSpec) []*Obligation {
	var args frameArgs
	if raw, ok := cfg.StaticArgs["frame-complete"]; ok {
		var list frameArgsList
		if err := json.Unmarshal(raw, &list); err != nil {
			var one frameArgs
			if err2 := json.Unmarshal(raw, &one); err2 != nil {
				return []*Obligation{{Unit: "static", Kind: "frame-complete", Label: "config", Goal: False, Src: err.Error()}}
			}
			list = frameArgsList{one}
		}
		found := false
		for _, a := range list {
			if a.Module == "" || a.Module == ld.Module {
				args = a
				found = true
				break
			}
		}
		if !found {
			return nil
		}
	}
	unitName := moduleShort(ld.Module) + ":frame-complete"
	allowedUnknown := map[string]bool{}
	for _, f := range args.AllowedUnknown {
		allowedUnknown[f] = true
	}
	writes := p.storeWrites()
	var obls []*Obligation
	fams := sortedKeys(args.Families)
	for _, fam := range fams {
		if _, ok := p.famByName[fam]; !ok {
			obls = append(obls, &Obligation{Unit: unitName, Kind: "static", Label: fam, Goal: False, Src: "family " + fam + " is not declared"})
			continue
		}
		allowed := map[string]bool{}
		for _, f := range args.Families[fam] {
			allowed[f] = true
		}
		var bad []string
		n := 0
		for _, w := range writes {
			if w.Family != fam {
				continue
			}
			n++
			if !allowed[w.Func] && !p.privateHelperOf(w.Func, allowed, map[string]bool{}) {
				bad = append(bad, fmt.Sprintf("%s (%s at %s)", w.Func, w.Op, w.Pos))
			}
		}
		o := &Obligation{Unit: unitName, Kind: "static", Label: fam, Goal: True,
			Src: fmt.Sprintf("only %v write store family %s directly (%d write sites found)", args.Families[fam], fam, n)}
		if len(bad) > 0 {
			o.Goal = False
			o.Src = "unexpected writers of store family " + fam + ": " + strings.Join(bad, "; ")
		}
		obls = append(obls, o)
	}
	// guarded setters: only the listed functions may call them (every call site in the loaded packages is checked;
	// taking the setter as a value counts as a call from that function)
	for _, callee := range sortedKeys(args.Callers) {
		cf := p.funcsByKey[callee]
		if cf == nil {
			obls = append(obls, &Obligation{Unit: unitName, Kind: "static", Label: "callers:" + lastName(callee), Goal: False, Src: "guarded function " + callee + " not found"})
			continue
		}
		allowed := map[string]bool{}
		for _, f := range args.Callers[callee] {
			allowed[f] = true
		}
		var bad []string
		n := 0
		x := &Exec{prog: p}
		for _, ck := range sortedKeys(p.funcsByKey) {
			fn := p.funcsByKey[ck]
			if fn.Blocks == nil || strings.HasSuffix(x.pos(fn.Pos()), "_test.go") {
				continue
			}
			for _, b := range fn.Blocks {
				for _, ins := range b.Instrs {
					uses := false
					for _, op := range ins.Operands(nil) {
						if op != nil && *op == ssa.Value(cf) {
							uses = true
						}
					}
					if ci, ok := ins.(ssa.CallInstruction); ok && ci.Common().StaticCallee() == cf {
						uses = true
					}
					if !uses {
						continue
					}
					n++
					// closures count for their enclosing function
					root := fn
					for root.Parent() != nil {
						root = root.Parent()
					}
					if !allowed[p.funcKey(root)] {
						bad = append(bad, fmt.Sprintf("%s (%s)", ck, x.pos(ins.Pos())))
					}
				}
			}
		}
		o := &Obligation{Unit: unitName, Kind: "static", Label: "callers:" + lastName(callee), Goal: True,
			Src: fmt.Sprintf("only %v call %s (%d call sites found)", args.Callers[callee], callee, n)}
		if len(bad) > 0 {
			o.Goal = False
			o.Src = "unexpected callers of " + callee + ": " + strings.Join(bad, "; ")
		}
		obls = append(obls, o)
	}
	// writes with unresolved keys could hit any family
	var unk []string
	for _, w := range writes {
		if w.Family == "" && !allowedUnknown[w.Func] {
			unk = append(unk, fmt.Sprintf("%s (%s at %s)", w.Func, w.Op, w.Pos))
		}
	}
	sort.Strings(unk)
	if args.Unresolved != nil && !*args.Unresolved {
		return obls
	}
	o := &Obligation{Unit: unitName, Kind: "static", Label: "unresolved-keys", Goal: True, Src: "every store write in the module resolves to a declared family or is explicitly allowed"}
	if len(unk) > 0 {
		o.Goal = False
		o.Src = "store writes whose key does not resolve to a declared family: " + strings.Join(unk, "; ")
	}
	obls = append(obls, o)
	return obls
}

func (p *Program) staticEntryPoints(cfg *PropConfig, ld LoadSpec) []*Obligation { return nil }


func moduleShort(m string) string {
	if i := strings.LastIndex(m, "/"); i >= 0 {
		return m[i+1:]
	}
	return m
}

// ---------------------------------------------------------------------------------------
// C11 effect contracts: every function of the consensus-relevant packages is "deterministic":
//   effect:hostclock  - no value of the host clock / OS / process-global RNG reaches anything but a logger
//   effect:maporder   - every range over a Go map is order-insensitive (sorted keys, or a commuting body without early exit)
//   effect:globalwrite - no store to package-level variables outside init
//   effect:float      - no fusable float multiply-add, no math function without bit-exact specification
// Checked on the SSA of all non-test functions of the loaded packages (a superset of what entry points reach).

type effectArgs struct {
	Module string   `json:"module"`
	Skip   []string `json:"skip_packages"` // package path suffixes not executed in consensus (client, simulation)
	Allow  []struct {
		Func   string `json:"func"`   // function key with module prefix, e.g. "service:keeper.Keeper.GetModuleServiceByServiceName"
		Effect string `json:"effect"` // hostclock | maporder | globalwrite | float
		Reason string `json:"reason"`
	} `json:"allow"`
}

// math functions whose results are not required to be correctly rounded (IEEE 754 specifies + - * / sqrt only)
var archFloatFuncs = map[string]bool{
	"math.Log": true, "math.Log2": true, "math.Log10": true, "math.Log1p": true, "math.Exp": true, "math.Exp2": true, "math.Expm1": true,
	"math.Pow": true, "math.Pow10": false, "math.Sin": true, "math.Cos": true, "math.Tan": true, "math.Asin": true, "math.Acos": true,
	"math.Atan": true, "math.Atan2": true, "math.Sinh": true, "math.Cosh": true, "math.Tanh": true, "math.Cbrt": true, "math.Hypot": true,
	"math.Gamma": true, "math.Lgamma": true, "math.Erf": true, "math.Erfc": true, "math.FMA": false,
}

func isFloat(t types.Type) bool {
	b, ok := t.Underlying().(*types.Basic)
	return ok && b.Info()&types.IsFloat != 0
}

var hostFuncs = map[string]bool{
	"time.Now": true, "time.Since": true, "time.Until": true,
	"os.Getenv": true, "os.Hostname": true, "os.Getpid": true, "os.Environ": true, "os.ReadFile": true, "os.Getwd": true,
	"runtime.NumGoroutine": true, "runtime.NumCPU": true, "runtime.GOMAXPROCS": true,
	"math/rand.Int": true, "math/rand.Intn": true, "math/rand.Int63": true, "math/rand.Int63n": true, "math/rand.Int31": true, "math/rand.Int31n": true,
	"math/rand.Float64": true, "math/rand.Float32": true, "math/rand.Perm": true, "math/rand.Shuffle": true, "math/rand.Uint32": true, "math/rand.Uint64": true, "math/rand.Read": true,
	"crypto/rand.Read": true, "crypto/rand.Int": true, "crypto/rand.Prime": true,
}

func isLoggerSink(c *ssa.CallCommon) bool {
	name := ""
	if c.IsInvoke() {
		name = c.Method.Name()
		recv := types.TypeString(c.Value.Type(), nil)
		if strings.Contains(recv, "log.Logger") || strings.HasSuffix(recv, "Logger") {
			return true
		}
	} else if fn := c.StaticCallee(); fn != nil {
		name = fn.String()
		if strings.Contains(name, "log.") || strings.Contains(name, "telemetry") {
			return true
		}
	}
	_ = name
	return false
}

// hostValueEscapes: does the value v (derived from the host clock etc.) reach anything other than a logger?
func hostValueEscapes(v ssa.Value, seen map[ssa.Value]bool, depth int) (bool, string) {
	if seen[v] || depth > 12 {
		return false, ""
	}
	seen[v] = true
	refs := v.Referrers()
	if refs == nil {
		return false, ""
	}
	for _, r := range *refs {
		switch in := r.(type) {
		case *ssa.DebugRef:
			continue
		case *ssa.Call:
			cc := in.Common()
			if isLoggerSink(cc) {
				continue
			}
			if fn := cc.StaticCallee(); fn != nil {
				n := fn.String()
				// time arithmetic / formatting keeps the taint
				if strings.HasPrefix(n, "(time.Time).") || strings.HasPrefix(n, "(time.Duration).") || n == "time.Since" || strings.HasPrefix(n, "fmt.Sprint") {
					if esc, why := hostValueEscapes(in, seen, depth+1); esc {
						return true, why
					}
					continue
				}
			}
			return true, "passed to " + callName(cc)
		case *ssa.MakeInterface, *ssa.ChangeType, *ssa.Convert, *ssa.Phi, *ssa.Slice, *ssa.BinOp, *ssa.UnOp, *ssa.Extract, *ssa.Field, *ssa.FieldAddr, *ssa.IndexAddr:
			if val, ok := r.(ssa.Value); ok {
				if esc, why := hostValueEscapes(val, seen, depth+1); esc {
					return true, why
				}
			}
		case *ssa.Store:
			// stored into a local (varargs array for a logger call etc.): follow the address
			if a, ok := in.Addr.(ssa.Value); ok && in.Val == v {
				if _, isG := a.(*ssa.Global); isG {
					return true, "stored to a package-level variable"
				}
				if esc, why := hostValueEscapes(a, seen, depth+1); esc {
					return true, why
				}
			}
		case *ssa.If:
			return true, "decides a branch"
		case *ssa.Return:
			return true, "returned"
		default:
			return true, fmt.Sprintf("used by %T", r)
		}
	}
	return false, ""
}

func (p *Program) staticEffects(cfg *PropConfig, ld LoadSpec) []*Obligation {
	var args effectArgs
	if raw, ok := cfg.StaticArgs["effects"]; ok {
		json.Unmarshal(raw, &args)
	}
	skip := func(fn *ssa.Function) bool {
		root := fn
		for root.Parent() != nil {
			root = root.Parent()
		}
		if root.Pkg == nil {
			return true
		}
		path := root.Pkg.Pkg.Path()
		for _, sfx := range args.Skip {
			if strings.HasSuffix(path, sfx) || strings.Contains(path, sfx+"/") {
				return true
			}
		}
		return false
	}
	x := &Exec{prog: p}
	mod := moduleShort(ld.Module)
	unit := mod + ":effects"
	// globals initialised from the host clock etc.
	taintedGlobals := map[*ssa.Global]string{}
	for _, sp := range p.ssaPkgs {
		init := sp.Func("init")
		if init == nil {
			continue
		}
		for _, b := range init.Blocks {
			for _, ins := range b.Instrs {
				st, ok := ins.(*ssa.Store)
				if !ok {
					continue
				}
				g, ok := st.Addr.(*ssa.Global)
				if !ok {
					continue
				}
				// value derived from a host call?
				var derives func(v ssa.Value, d int) string
				derives = func(v ssa.Value, d int) string {
					if d > 6 {
						return ""
					}
					if c, ok := v.(*ssa.Call); ok {
						if fn := c.Call.StaticCallee(); fn != nil && hostFuncs[fn.String()] {
							return fn.String()
						}
						for _, a := range c.Call.Args {
							if w := derives(a, d+1); w != "" {
								return w
							}
						}
					}
					if in, ok := v.(ssa.Instruction); ok {
						for _, op := range in.Operands(nil) {
							if *op != nil {
								if w := derives(*op, d+1); w != "" {
									return w
								}
							}
						}
					}
					return ""
				}
				if w := derives(st.Val, 0); w != "" {
					taintedGlobals[g] = w
				}
			}
		}
	}
	var clock, maporder, gwrite, floats, inplace []string
	nfun, nsites := 0, 0
	for _, key := range sortedKeys(p.funcsByKey) {
		fn := p.funcsByKey[key]
		if fn.Blocks == nil || skip(fn) || fn.Name() == "init" {
			continue
		}
		if strings.HasSuffix(x.pos(fn.Pos()), "_test.go") || strings.Contains(x.pos(fn.Pos()), "zz_verif") {
			continue
		}
		fpos := x.pos(fn.Pos())
		if len(fn.Blocks) > 0 && len(fn.Blocks[0].Instrs) > 0 && fpos == "?" {
			for _, ins := range fn.Blocks[0].Instrs {
				if ins.Pos().IsValid() {
					fpos = x.pos(ins.Pos())
					break
				}
			}
		}
		if strings.Contains(fpos, ".pb.go:") || strings.Contains(fpos, ".pb.gw.go:") {
			continue // generated protobuf (binary encoding of genesis maps is not consensus data; JSON export sorts keys)
		}
		if strings.HasPrefix(fn.Name(), "init#") {
			continue // package initialisers
		}
		allowed := map[string]string{}
		for _, a := range args.Allow {
			if a.Func == mod+":"+key {
				allowed[a.Effect] = a.Reason
			}
		}
		nfun++
		// start-up wiring (RegisterInterfaces, RegisterLegacyAminoCodec, RegisterAggregateFunc, ...) runs once per process
		// before any block is executed, identically on every replica: filling registries there is not a state transition
		wiring := strings.HasPrefix(fn.Name(), "Register")
		loops, bodies := findLoops(fn)
		_ = loops
		for _, b := range fn.Blocks {
			for _, ins := range b.Instrs {
				switch in := ins.(type) {
				case *ssa.BinOp:
					// Go may fuse x*y + z into one FMA instruction on some architectures (spec: "Floating-point operators"),
					// so a float product feeding a float sum is not bit-reproducible across replicas
					if (in.Op == token.ADD || in.Op == token.SUB) && isFloat(in.Type()) && allowed["float"] == "" {
						for _, opnd := range []ssa.Value{in.X, in.Y} {
							if m, ok := opnd.(*ssa.BinOp); ok && m.Op == token.MUL && isFloat(m.Type()) {
								nsites++
								floats = append(floats, fmt.Sprintf("%s adds a floating-point product that the compiler may fuse (%s)", key, x.pos(in.Pos())))
							}
						}
					}
				case *ssa.Call:
					// in-place arithmetic (the ...Mut methods of cosmossdk.io/math) writes through the *big.Int the value
					// shares with every copy of it: on anything but a value made in this function it changes a parameter,
					// a registry entry or a cached object for the rest of the process lifetime
					if sc := in.Call.StaticCallee(); sc != nil && isMathMut(sc) && len(in.Call.Args) > 0 && allowed["globalwrite"] == "" {
						nsites++
						if !freshMathValue(in.Call.Args[0], map[ssa.Value]bool{}) {
							inplace = append(inplace, fmt.Sprintf("%s calls %s on a value it did not create: in-place arithmetic on a shared number (%s)", key, sc.Name(), x.pos(in.Pos())))
						}
					}
					// process-local mutable state held by a keeper (a cache, a memo table): what it returns depends on what this
					// process happened to execute before (CheckTx, simulations, rolled-back transactions, a restart), not on chain data
					if sc := in.Call.StaticCallee(); sc != nil && syncMutators[sc.String()] && !wiring && !strings.HasPrefix(fn.Name(), "New") && allowed["globalwrite"] == "" {
						nsites++
						gwrite = append(gwrite, fmt.Sprintf("%s calls %s: process-local mutable state outside start-up wiring (%s)", key, sc.String(), x.pos(in.Pos())))
					}
					for _, a := range in.Call.Args {
						if g, ok := a.(*ssa.Global); ok && repoGlobal(x, g) && mutableState(g.Type()) && !wiring && allowed["globalwrite"] == "" {
							nsites++
							gwrite = append(gwrite, fmt.Sprintf("%s hands the address of package-level %s.%s to %s: process-local mutable state (%s)", key, g.Pkg.Pkg.Name(), g.Name(), calleeName(&in.Call), x.pos(in.Pos())))
						}
					}
					if sc := in.Call.StaticCallee(); sc != nil && archFloatFuncs[sc.String()] {
						nsites++
						if allowed["float"] == "" {
							floats = append(floats, fmt.Sprintf("%s calls %s, whose result is not specified bit-exactly (%s)", key, sc.String(), x.pos(in.Pos())))
						}
					}
					if sc := in.Call.StaticCallee(); sc != nil && hostFuncs[sc.String()] {
						nsites++
						if esc, why := hostValueEscapes(in, map[ssa.Value]bool{}, 0); esc && allowed["hostclock"] == "" {
							clock = append(clock, fmt.Sprintf("%s calls %s and the value is %s (%s)", key, sc.String(), why, x.pos(in.Pos())))
						}
					}
				case *ssa.UnOp:
					if g, ok := in.X.(*ssa.Global); ok && in.Op == token.MUL {
						if w, bad := taintedGlobals[g]; bad {
							nsites++
							if esc, why := hostValueEscapes(in, map[ssa.Value]bool{}, 0); esc && allowed["hostclock"] == "" {
								clock = append(clock, fmt.Sprintf("%s reads %s.%s, initialised from %s, and the value is %s (%s)", key, g.Pkg.Pkg.Name(), g.Name(), w, why, x.pos(in.Pos())))
							}
						}
					}
				case *ssa.Store:
					if g, ok := in.Addr.(*ssa.Global); ok && allowed["globalwrite"] == "" {
						nsites++
						gwrite = append(gwrite, fmt.Sprintf("%s stores to package-level %s.%s (%s)", key, g.Pkg.Pkg.Name(), g.Name(), x.pos(in.Pos())))
					} else if g := globalRoot(in.Addr); g != nil && repoGlobal(x, g) && !wiring && allowed["globalwrite"] == "" {
						nsites++
						gwrite = append(gwrite, fmt.Sprintf("%s stores into package-level %s.%s (%s)", key, g.Pkg.Pkg.Name(), g.Name(), x.pos(in.Pos())))
					}
				case *ssa.MapUpdate:
					if heldByParam(in.Map) && !wiring && !strings.HasPrefix(fn.Name(), "New") && allowed["globalwrite"] == "" {
						nsites++
						gwrite = append(gwrite, fmt.Sprintf("%s updates a Go map held in a field of its receiver or of a parameter: process-local mutable state outside start-up wiring (%s)", key, x.pos(in.Pos())))
					}
					if g := globalRoot(in.Map); g != nil && repoGlobal(x, g) && !wiring && allowed["globalwrite"] == "" {
						nsites++
						gwrite = append(gwrite, fmt.Sprintf("%s updates the package-level map %s.%s (%s)", key, g.Pkg.Pkg.Name(), g.Name(), x.pos(in.Pos())))
					}
				case *ssa.Range:
					if _, isMap := in.X.Type().Underlying().(*types.Map); isMap {
						nsites++
						if why := mapRangeOrderSensitive(fn, in, bodies); why != "" && allowed["maporder"] == "" {
							maporder = append(maporder, fmt.Sprintf("%s ranges over a map and %s (%s)", key, why, x.pos(in.Pos())))
						}
					}
				}
			}
		}
	}
	mk := func(label string, bad []string, okText string) *Obligation {
		o := &Obligation{Unit: unit, Kind: "effect", Label: label, Goal: True, Src: okText}
		if len(bad) > 0 {
			sort.Strings(bad)
			o.Goal = False
			o.Src = strings.Join(bad, "; ")
		}
		return o
	}
	return []*Obligation{
		mk("hostclock", clock, fmt.Sprintf("%d functions: no host clock / OS / global RNG value reaches anything but a logger", nfun)),
		mk("maporder", maporder, fmt.Sprintf("%d functions: every range over a Go map is order-insensitive", nfun)),
		mk("globalwrite", gwrite, fmt.Sprintf("%d functions: no store to package-level variables outside init", nfun)),
		mk("inplace", inplace, fmt.Sprintf("%d functions: in-place (...Mut) arithmetic only on numbers created in the same function", nfun)),
		mk("float", floats, fmt.Sprintf("%d functions: no fusable floating-point multiply-add and no math function without a bit-exact specification", nfun)),
	}
}

// benignEarlyReturn: a pure search that reports only an error (and constants).
func benignEarlyReturn(body map[*ssa.BasicBlock]bool, ret *ssa.Return) bool {
	for bb := range body {
		for _, i2 := range bb.Instrs {
			if ci, ok := i2.(ssa.CallInstruction); ok {
				for _, a := range ci.Common().Args {
					if isStateful(a.Type()) {
						return false
					}
				}
				if ci.Common().IsInvoke() && isStateful(ci.Common().Value.Type()) {
					return false
				}
			}
		}
	}
	for _, r := range ret.Results {
		if _, isConst := r.(*ssa.Const); isConst {
			continue
		}
		if types.Identical(r.Type(), types.Universe.Lookup("error").Type()) {
			continue
		}
		return false
	}
	return true
}

// mapRangeOrderSensitive returns a reason when the loop over a map may behave differently for different iteration orders.
func mapRangeOrderSensitive(fn *ssa.Function, rng *ssa.Range, bodies map[*ssa.BasicBlock]map[*ssa.BasicBlock]bool) string {
	// the loop whose header contains the Next of this range
	var header *ssa.BasicBlock
	for h, set := range bodies {
		for _, ins := range h.Instrs {
			if nx, ok := ins.(*ssa.Next); ok && nx.Iter == rng {
				header = h
				_ = set
			}
		}
	}
	if header == nil {
		return "the loop structure is not recognised"
	}
	body := bodies[header]
	for b := range body {
		for _, ins := range b.Instrs {
			switch in := ins.(type) {
			case *ssa.Return:
				if !benignEarlyReturn(body, in) {
					return "returns from inside the loop (what is returned, or how much work was done before, depends on the order)"
				}
			case *ssa.Call:
				cc := in.Common()
				if bi, ok := cc.Value.(*ssa.Builtin); ok {
					if bi.Name() == "append" {
						// appended slice must be sorted afterwards in this function
						if !sortedLater(fn, in) {
							return "appends to a slice that is not sorted afterwards"
						}
					}
					continue
				}
			case *ssa.Panic:
				return "may panic inside the loop"
			}
		}
		// early exit: an edge from a body block (other than the header) to outside the loop
		if b != header {
			for _, s := range b.Succs {
				if !body[s] {
					// an exit into a block that (through straight-line code) returns: judge that return
					cur := s
					var ret *ssa.Return
					for steps := 0; steps < 4 && cur != nil; steps++ {
						if r, ok := cur.Instrs[len(cur.Instrs)-1].(*ssa.Return); ok {
							ret = r
							break
						}
						if len(cur.Succs) == 1 {
							cur = cur.Succs[0]
						} else {
							cur = nil
						}
					}
					if ret != nil && benignEarlyReturn(body, ret) {
						continue
					}
					if ret != nil {
						return "returns from inside the loop (what is returned, or how much work was done before, depends on the order)"
					}
					return "leaves the loop early (break) depending on an element"
				}
			}
		}
	}
	return ""
}

// sortedLater: the result of this append (through phis / re-appends) is passed to a sort function in fn.
func sortedLater(fn *ssa.Function, app *ssa.Call) bool {
	seen := map[ssa.Value]bool{}
	var follow func(v ssa.Value, d int) bool
	follow = func(v ssa.Value, d int) bool {
		if seen[v] || d > 10 {
			return false
		}
		seen[v] = true
		refs := v.Referrers()
		if refs == nil {
			return false
		}
		for _, r := range *refs {
			switch in := r.(type) {
			case *ssa.Call:
				if sc := in.Call.StaticCallee(); sc != nil {
					n := sc.String()
					if strings.HasPrefix(n, "sort.") || strings.HasPrefix(n, "slices.Sort") || strings.Contains(n, ".Sort") || strings.Contains(n, "sortkeys.") {
						// a sort with a caller-supplied comparison restores a definite order only if that comparison
						// orders the elements themselves (distinct elements never compare equal): an unstable sort
						// leaves elements that compare equal in their incoming - here: map - order
						if n == "sort.Slice" || n == "sort.SliceStable" || strings.HasPrefix(n, "slices.SortFunc") || strings.HasPrefix(n, "slices.SortStableFunc") {
							if len(in.Call.Args) >= 2 && !plainLess(in.Call.Args[1]) {
								continue
							}
						}
						return true
					}
				}
				if bi, ok := in.Call.Value.(*ssa.Builtin); ok && bi.Name() == "append" {
					if follow(in, d+1) {
						return true
					}
				}
			case *ssa.Phi, *ssa.ChangeType, *ssa.MakeInterface, *ssa.Convert:
				if val, ok := r.(ssa.Value); ok && follow(val, d+1) {
					return true
				}
			case *ssa.Store:
				if a, ok := in.Addr.(ssa.Value); ok {
					// stored in a local: look at loads of that local
					if refs2 := a.Referrers(); refs2 != nil {
						for _, r2 := range *refs2 {
							if ld, ok := r2.(*ssa.UnOp); ok && follow(ld, d+1) {
								return true
							}
						}
					}
				}
			}
		}
		return false
	}
	return follow(app, 0)
}

// ---------------------------------------------------------------------------------------------------------------
// Write sets: which world components a piece of code may write. Used to havoc, at a loop cut, only what the loop body can
// change (instead of everything in the function's modifies clause). Any doubt => unknown => full havoc.

func ifaceShortName(t types.Type) string {
	s := types.TypeString(t, nil)
	if i := strings.LastIndexAny(s, "./"); i >= 0 {
		s = s[i+1:]
	}
	return s
}

func (p *Program) fnWrites(fn *ssa.Function, seen map[*ssa.Function]bool, resolve func(ssa.Value) *ssa.Function) (map[string]bool, bool) {
	if fn == nil {
		return nil, false
	}
	if seen[fn] {
		return map[string]bool{}, true
	}
	seen[fn] = true
	if c := p.contractFor(fn); c != nil && !c.Inline {
		if c.ModAll {
			return nil, false
		}
		ws := map[string]bool{}
		for _, m := range c.Modifies {
			if !strings.HasPrefix(m, "*") {
				ws[m] = true
			}
		}
		return ws, true
	}
	if fn.Blocks == nil {
		// dependency without a body: cannot write this module's world unless it is handed something stateful
		for _, prm := range fn.Params {
			if isStateful(prm.Type()) {
				// contexts are passed everywhere; only store-like / keeper-like parameters matter
				ts := types.TypeString(prm.Type(), nil)
				if strings.Contains(ts, "Store") || strings.HasSuffix(ts, "Keeper") {
					return nil, false
				}
			}
		}
		return map[string]bool{}, true
	}
	ws := map[string]bool{}
	for _, b := range fn.Blocks {
		for _, ins := range b.Instrs {
			w, ok := p.instrWrites(ins, seen, resolve)
			if !ok {
				return nil, false
			}
			for k := range w {
				ws[k] = true
			}
		}
	}
	return ws, true
}

func (p *Program) instrWrites(ins ssa.Instruction, seen map[*ssa.Function]bool, resolve func(ssa.Value) *ssa.Function) (map[string]bool, bool) {
	ci, ok := ins.(ssa.CallInstruction)
	if !ok {
		return nil, true
	}
	cc := ci.Common()
	none := map[string]bool{}
	if cc.IsInvoke() {
		iname := ifaceShortName(cc.Value.Type())
		m := cc.Method.Name()
		switch {
		case strings.Contains(iname, "KVStore") || iname == "Store" || strings.HasSuffix(iname, "Store"):
			if m == "Set" || m == "Delete" {
				if len(cc.Args) == 0 {
					return nil, false
				}
				fam := p.resolveKeyFamily(cc.Args[0], 0)
				if fam == "" {
					return nil, false
				}
				return map[string]bool{fam: true}, true
			}
			return none, true
		case strings.Contains(iname, "BankKeeper"):
			if strings.HasPrefix(m, "Send") || strings.HasPrefix(m, "Mint") || strings.HasPrefix(m, "Burn") || strings.HasPrefix(m, "Delegate") || strings.HasPrefix(m, "Undelegate") {
				return map[string]bool{"bal": true, "supply": true}, true
			}
			return none, true
		case strings.Contains(iname, "AccountKeeper"):
			return none, true
		case strings.HasSuffix(iname, "Keeper"):
			return map[string]bool{"bal": true, "supply": true}, true
		case strings.Contains(iname, "Codec") || strings.Contains(iname, "Marshaler") || strings.Contains(iname, "Logger") || strings.Contains(iname, "Iterator") || iname == "error":
			return none, true
		}
		for _, a := range cc.Args {
			ts := types.TypeString(a.Type(), nil)
			if strings.Contains(ts, "Store") || strings.HasSuffix(ts, "Keeper") {
				return nil, false
			}
		}
		return none, true
	}
	switch v := cc.Value.(type) {
	case *ssa.Builtin:
		return none, true
	case *ssa.Function:
		return p.fnWrites(v, seen, resolve)
	case *ssa.MakeClosure:
		if fn, ok := v.Fn.(*ssa.Function); ok {
			return p.fnWrites(fn, seen, resolve)
		}
	default:
		if resolve != nil {
			if fn := resolve(cc.Value); fn != nil {
				return p.fnWrites(fn, seen, resolve)
			}
		}
	}
	return nil, false
}

// loopWrites: the write set of the instructions of a loop body.
func (p *Program) loopWrites(body map[*ssa.BasicBlock]bool, resolve func(ssa.Value) *ssa.Function) (map[string]bool, bool) {
	ws := map[string]bool{}
	seen := map[*ssa.Function]bool{}
	for blk := range body {
		for _, ins := range blk.Instrs {
			w, ok := p.instrWrites(ins, seen, resolve)
			if !ok {
				return nil, false
			}
			for k := range w {
				ws[k] = true
			}
		}
	}
	return ws, true
}

// globalRoot: the package-level variable an address or a container value is derived from (field / element addresses,
// loads of a global map or slice), or nil.
// isMathMut: an in-place method of cosmossdk.io/math (LegacyDec.AddMut, MulIntMut, ..., Int.BigIntMut)
func isMathMut(fn *ssa.Function) bool {
	if fn.Pkg == nil || fn.Pkg.Pkg.Path() != "cosmossdk.io/math" || fn.Signature.Recv() == nil {
		return false
	}
	return strings.HasSuffix(fn.Name(), "Mut")
}

// freshMathValue: the number was made in this function by cosmossdk.io/math itself (a constructor or a copying
// operation), possibly updated in place since - nothing else can hold its *big.Int
func freshMathValue(v ssa.Value, seen map[ssa.Value]bool) bool {
	if seen[v] {
		return true
	}
	seen[v] = true
	switch t := v.(type) {
	case *ssa.Call:
		sc := t.Call.StaticCallee()
		if sc == nil || sc.Pkg == nil || sc.Pkg.Pkg.Path() != "cosmossdk.io/math" {
			return false
		}
		if isMathMut(sc) {
			return len(t.Call.Args) > 0 && freshMathValue(t.Call.Args[0], seen)
		}
		return true
	case *ssa.Phi:
		for _, e := range t.Edges {
			if !freshMathValue(e, seen) {
				return false
			}
		}
		return true
	case *ssa.UnOp:
		if a, ok := t.X.(*ssa.Alloc); ok && t.Op == token.MUL {
			for _, r := range *a.Referrers() {
				switch ri := r.(type) {
				case *ssa.Store:
					if ri.Addr != a || !freshMathValue(ri.Val, seen) {
						return false
					}
				case *ssa.UnOp:
				default:
					return false
				}
			}
			return true
		}
	}
	return false
}

// mutators of the process-local containers of package sync
var syncMutators = map[string]bool{
	"(*sync.Map).Store": true, "(*sync.Map).LoadOrStore": true, "(*sync.Map).LoadAndDelete": true, "(*sync.Map).Delete": true,
	"(*sync.Map).Swap": true, "(*sync.Map).CompareAndSwap": true, "(*sync.Map).CompareAndDelete": true, "(*sync.Map).Clear": true,
	"(*sync.Pool).Put": true,
}

// heldByParam: the value is read from a field (of a field ...) of a parameter or receiver - state that outlives the call
func heldByParam(v ssa.Value) bool {
	sawField := false
	for i := 0; i < 8; i++ {
		switch t := v.(type) {
		case *ssa.Parameter:
			return sawField
		case *ssa.FieldAddr:
			sawField = true
			v = t.X
		case *ssa.Field:
			sawField = true
			v = t.X
		case *ssa.UnOp:
			if t.Op != token.MUL {
				return false
			}
			v = t.X
		default:
			return false
		}
	}
	return false
}

func globalRoot(v ssa.Value) *ssa.Global {
	for i := 0; i < 8; i++ {
		switch t := v.(type) {
		case *ssa.Global:
			return t
		case *ssa.FieldAddr:
			v = t.X
		case *ssa.IndexAddr:
			v = t.X
		case *ssa.UnOp:
			if t.Op != token.MUL {
				return nil
			}
			v = t.X
		default:
			return nil
		}
	}
	return nil
}

func repoGlobal(x *Exec, g *ssa.Global) bool {
	return g.Pkg != nil && x.prog.repoPkgs[g.Pkg]
}

// mutableState: *T for a T that carries state a call can change (anything but a plain function value)
func mutableState(t types.Type) bool {
	pt, ok := t.Underlying().(*types.Pointer)
	if !ok {
		return false
	}
	switch pt.Elem().Underlying().(type) {
	case *types.Signature:
		return false
	}
	return true
}

func calleeName(c *ssa.CallCommon) string {
	if sc := c.StaticCallee(); sc != nil {
		return sc.String()
	}
	if c.IsInvoke() {
		return c.Method.Name()
	}
	return c.Value.Name()
}

// privateHelperOf: fn is an unexported function that is only ever called (statically, never taken as a value) from
// the allowed writers or from other such helpers: its writes are part of what those functions are verified for
// (uncontracted callees are inlined into the proofs of their callers), so it adds no new code path to the family.
func (p *Program) privateHelperOf(key string, allowed map[string]bool, seen map[string]bool) bool {
	if seen[key] {
		return true
	}
	seen[key] = true
	fn := p.funcsByKey[key]
	if fn == nil || fn.Object() == nil || fn.Object().Exported() {
		return false
	}
	if p.contractFor(fn) != nil {
		return false // a function under its own contract must be listed explicitly
	}
	callers := 0
	for _, ck := range sortedKeys(p.funcsByKey) {
		cf := p.funcsByKey[ck]
		if cf.Blocks == nil {
			continue
		}
		for _, b := range cf.Blocks {
			for _, ins := range b.Instrs {
				// taken as a value anywhere: could be called from anywhere
				for _, op := range ins.Operands(nil) {
					if op != nil && *op == ssa.Value(fn) {
						ci, isCall := ins.(ssa.CallInstruction)
						if !isCall || ci.Common().Value != ssa.Value(fn) {
							return false
						}
					}
				}
				ci, ok := ins.(ssa.CallInstruction)
				if !ok || ci.Common().StaticCallee() != fn {
					continue
				}
				callers++
				if !allowed[ck] && !p.privateHelperOf(ck, allowed, seen) {
					return false
				}
			}
		}
	}
	return callers > 0
}

// plainLess: the comparison closure handed to sort.Slice compares the elements (or fields of them) directly with < or >
// or through bytes.Compare / strings.Compare, without mapping them through another function first (strings.ToLower,
// a hash, a length ...), which could make distinct elements compare equal.
func plainLess(v ssa.Value) bool {
	var fn *ssa.Function
	switch c := v.(type) {
	case *ssa.MakeClosure:
		fn, _ = c.Fn.(*ssa.Function)
	case *ssa.Function:
		fn = c
	case *ssa.ChangeType:
		return plainLess(c.X)
	case *ssa.MakeInterface:
		return plainLess(c.X)
	}
	if fn == nil || fn.Blocks == nil {
		return false
	}
	var direct func(v ssa.Value, d int) bool
	direct = func(v ssa.Value, d int) bool {
		if d > 6 {
			return false
		}
		switch t := v.(type) {
		case *ssa.UnOp:
			return direct(t.X, d+1)
		case *ssa.IndexAddr, *ssa.Index, *ssa.Parameter, *ssa.FreeVar:
			return true
		case *ssa.FieldAddr:
			return direct(t.X, d+1)
		case *ssa.Field:
			return direct(t.X, d+1)
		case *ssa.Convert:
			return direct(t.X, d+1)
		case *ssa.ChangeType:
			return direct(t.X, d+1)
		case *ssa.Slice:
			return direct(t.X, d+1)
		case *ssa.Const:
			return true
		}
		return false
	}
	ok := true
	found := false
	for _, b := range fn.Blocks {
		for _, ins := range b.Instrs {
			if c, isCall := ins.(*ssa.Call); isCall {
				n := ""
				if sc := c.Call.StaticCallee(); sc != nil {
					n = sc.String()
				}
				switch n {
				case "bytes.Compare", "strings.Compare", "bytes.Equal":
					for _, a := range c.Call.Args {
						if !direct(a, 0) {
							ok = false
						}
					}
				default:
					// accessor methods of the elements (x.GetDenom(), addr.String() on the element) are fine only if
					// they are applied to the element directly; anything else transforms the key
					for _, a := range c.Call.Args {
						if !direct(a, 0) {
							ok = false
						}
					}
					if strings.HasPrefix(n, "strings.To") || strings.HasPrefix(n, "strings.Trim") || strings.Contains(n, "Fold") || n == "" {
						ok = false
					}
				}
			}
			if bo, isBin := ins.(*ssa.BinOp); isBin {
				switch bo.Op {
				case token.LSS, token.GTR, token.LEQ, token.GEQ:
					found = true
				}
			}
		}
	}
	return ok && found
}
