package main

// Static (generator-discharged) obligations: entry points, frame completeness, effects.

func (p *Program) runStatic(name string, cfg *PropConfig, ld LoadSpec) []*Obligation {
	switch name {
	}
	return []*Obligation{{Unit: "static", Kind: "static", Label: name, Goal: False, Src: "unknown static analysis " + name}}
}
