package main

import (
	"encoding/json"
	"fmt"
	"go/constant"
	"sort"
	"strings"

	"golang.org/x/tools/go/ssa"
)

// Static (generator-discharged) obligations: frame completeness, entry points, effects. Back end: govc-static.

func (p *Program) runStatic(name string, cfg *PropConfig, ld LoadSpec) []*Obligation {
	switch name {
	case "frame-complete":
		return p.staticFrameComplete(cfg, ld)
	case "entrypoints":
		return p.staticEntryPoints(cfg, ld)
	case "effects":
		return p.staticEffects(cfg, ld)
	}
	return []*Obligation{{Unit: "static", Kind: "static", Label: name, Goal: False, Src: "unknown static analysis " + name}}
}

type frameArgsList []frameArgs

type frameArgs struct {
	Unresolved     *bool               `json:"unresolved"` // check that every store write resolves to a declared family (default true)
	Families       map[string][]string `json:"families"`        // family -> functions allowed to write it directly
	AllowedUnknown []string            `json:"allowed_unknown"` // functions allowed to write with an unresolved key
	Bank           map[string][]string `json:"bank"`            // "mint","burn","send" -> functions allowed to call them directly
	Module         string              `json:"module"`
}

// resolveKeyFamily: which declared family does a store key value belong to ("" = unknown)?
func (p *Program) resolveKeyFamily(v ssa.Value, depth int) string {
	if depth > 6 {
		return ""
	}
	switch k := v.(type) {
	case *ssa.Call:
		if fn := k.Call.StaticCallee(); fn != nil {
			key := p.funcKey(fn)
			if fam, ok := p.families[key]; ok {
				return fam.Name
			}
			if fam, ok := p.prefixFns[key]; ok {
				return fam.Name
			}
			// append(prefix, ...) wrappers and helpers: look inside one level for a single family
			if p.isRepoFunc(fn) && fn.Blocks != nil {
				fams := map[string]bool{}
				for _, b := range fn.Blocks {
					for _, ins := range b.Instrs {
						if r, ok := ins.(*ssa.Return); ok && len(r.Results) == 1 {
							fams[p.resolveKeyFamily(r.Results[0], depth+1)] = true
						}
					}
				}
				if len(fams) == 1 {
					for f := range fams {
						return f
					}
				}
			}
		}
		if b, ok := k.Call.Value.(*ssa.Builtin); ok && b.Name() == "append" {
			return p.resolveKeyFamily(k.Call.Args[0], depth+1)
		}
	case *ssa.Convert:
		if c, ok := k.X.(*ssa.Const); ok && c.Value != nil && c.Value.Kind() == constant.String {
			if fam, ok := p.families["const:"+constant.StringVal(c.Value)]; ok {
				return fam.Name
			}
		}
		return p.resolveKeyFamily(k.X, depth+1)
	case *ssa.ChangeType:
		return p.resolveKeyFamily(k.X, depth+1)
	case *ssa.UnOp:
		if g, ok := k.X.(*ssa.Global); ok {
			if fam, ok := p.families["global:"+g.Pkg.Pkg.Name()+"."+g.Name()]; ok {
				return fam.Name
			}
		}
	case *ssa.Slice:
		return p.resolveKeyFamily(k.X, depth+1)
	case *ssa.Phi:
		fams := map[string]bool{}
		for _, e := range k.Edges {
			fams[p.resolveKeyFamily(e, depth+1)] = true
		}
		if len(fams) == 1 {
			for f := range fams {
				return f
			}
		}
	}
	return ""
}

type storeWrite struct {
	Func   string
	Family string
	Op     string
	Pos    string
}

func (p *Program) storeWrites() []storeWrite {
	var out []storeWrite
	x := &Exec{prog: p}
	for _, key := range sortedKeys(p.funcsByKey) {
		fn := p.funcsByKey[key]
		if fn.Blocks == nil || strings.HasSuffix(x.pos(fn.Pos()), "_test.go") {
			continue
		}
		for _, b := range fn.Blocks {
			for _, ins := range b.Instrs {
				ci, ok := ins.(ssa.CallInstruction)
				if !ok {
					continue
				}
				cc := ci.Common()
				var op string
				var keyArg ssa.Value
				if cc.IsInvoke() {
					in := ifaceName(cc.Value.Type())
					if (in == "KVStore" || in == "BasicKVStore") && (cc.Method.Name() == "Set" || cc.Method.Name() == "Delete") {
						op, keyArg = cc.Method.Name(), cc.Args[0]
					}
				} else if sc := cc.StaticCallee(); sc != nil {
					n := sc.String()
					if n == "(cosmossdk.io/store/prefix.Store).Set" || n == "(cosmossdk.io/store/prefix.Store).Delete" {
						op, keyArg = sc.Name(), cc.Args[1]
					}
				}
				if op == "" {
					continue
				}
				out = append(out, storeWrite{Func: key, Family: p.resolveKeyFamily(keyArg, 0), Op: op, Pos: x.pos(ins.Pos())})
			}
		}
	}
	return out
}

func (p *Program) staticFrameComplete(cfg *PropConfig, ld LoadSpec) []*Obligation {
	var args frameArgs
	if raw, ok := cfg.StaticArgs["frame-complete"]; ok {
		var list frameArgsList
		if err := json.Unmarshal(raw, &list); err != nil {
			var one frameArgs
			if err2 := json.Unmarshal(raw, &one); err2 != nil {
				return []*Obligation{{Unit: "static", Kind: "frame-complete", Label: "config", Goal: False, Src: err.Error()}}
			}
			list = frameArgsList{one}
		}
		found := false
		for _, a := range list {
			if a.Module == "" || a.Module == ld.Module {
				args = a
				found = true
				break
			}
		}
		if !found {
			return nil
		}
	}
	unitName := moduleShort(ld.Module) + ":frame-complete"
	allowedUnknown := map[string]bool{}
	for _, f := range args.AllowedUnknown {
		allowedUnknown[f] = true
	}
	writes := p.storeWrites()
	var obls []*Obligation
	fams := sortedKeys(args.Families)
	for _, fam := range fams {
		if _, ok := p.famByName[fam]; !ok {
			obls = append(obls, &Obligation{Unit: unitName, Kind: "static", Label: fam, Goal: False, Src: "family " + fam + " is not declared"})
			continue
		}
		allowed := map[string]bool{}
		for _, f := range args.Families[fam] {
			allowed[f] = true
		}
		var bad []string
		n := 0
		for _, w := range writes {
			if w.Family != fam {
				continue
			}
			n++
			if !allowed[w.Func] {
				bad = append(bad, fmt.Sprintf("%s (%s at %s)", w.Func, w.Op, w.Pos))
			}
		}
		o := &Obligation{Unit: unitName, Kind: "static", Label: fam, Goal: True,
			Src: fmt.Sprintf("only %v write store family %s directly (%d write sites found)", args.Families[fam], fam, n)}
		if len(bad) > 0 {
			o.Goal = False
			o.Src = "unexpected writers of store family " + fam + ": " + strings.Join(bad, "; ")
		}
		obls = append(obls, o)
	}
	// writes with unresolved keys could hit any family
	var unk []string
	for _, w := range writes {
		if w.Family == "" && !allowedUnknown[w.Func] {
			unk = append(unk, fmt.Sprintf("%s (%s at %s)", w.Func, w.Op, w.Pos))
		}
	}
	sort.Strings(unk)
	if args.Unresolved != nil && !*args.Unresolved {
		return obls
	}
	o := &Obligation{Unit: unitName, Kind: "static", Label: "unresolved-keys", Goal: True, Src: "every store write in the module resolves to a declared family or is explicitly allowed"}
	if len(unk) > 0 {
		o.Goal = False
		o.Src = "store writes whose key does not resolve to a declared family: " + strings.Join(unk, "; ")
	}
	obls = append(obls, o)
	return obls
}

func (p *Program) staticEntryPoints(cfg *PropConfig, ld LoadSpec) []*Obligation { return nil }
func (p *Program) staticEffects(cfg *PropConfig, ld LoadSpec) []*Obligation    { return nil }

func moduleShort(m string) string {
	if i := strings.LastIndex(m, "/"); i >= 0 {
		return m[i+1:]
	}
	return m
}
