package main

import (
	"fmt"
	"go/types"
	"os"
	"sort"
	"strings"

	"golang.org/x/tools/go/ssa"
)

// Key-layout audit (what assumption A-KEYS rests on, checked on the real key constructors).
//
// The store model gives every declared family an abstract key (the tuple of the key constructor's arguments) and lets a
// prefix constructor P(a1..ak) select exactly the keys K(a1..ak, ...). That is only faithful if, at the byte level,
//   (L1) K(a1..an) begins with P(a1..ak), and
//   (L2) P is self-delimiting: no variable-length component of P is left open at its end while K goes on, so that
//        P(a) cannot also be a prefix of K(a', ...) for a' != a (e.g. a name that merely starts with a).
// Both key constructors are executed symbolically on fresh arguments (same symbols for the same positions), their
// results flattened into byte segments, and the two conditions checked on the segment lists.

// (L3) An integer component that a prefix constructor leaves open is iterated over in byte order; the modules rely on
//      that order being the numeric one (oldest batch first, lowest height first), so the component must be written
//      big-endian at fixed width. A little-endian (or otherwise unrecognised but identified) encoding is reported.

// rawKeyTheory: byte-order primitives, interpreted only while key constructors are executed for this audit.
var rawKeyTheory = map[string]TheoryFn{}

func init() {
	put := func(name string) TheoryFn {
		return func(x *Exec, f *Frame, st *State, c *CallInfo) Val {
			b := UF(name, SBytes, c.T(2))
			switch d := c.Args[1].(type) {
			case *BufVal:
				d.Parts = append(d.Parts, bufPart{Val: b})
			case *BufView:
				d.Buf.Parts = append(d.Buf.Parts, bufPart{Off: d.Lo, Val: b})
			}
			return nil
		}
	}
	rawKeyTheory["(encoding/binary.bigEndian).PutUint64"] = put("be64")
	rawKeyTheory["(encoding/binary.bigEndian).PutUint32"] = put("be32")
	rawKeyTheory["(encoding/binary.bigEndian).PutUint16"] = put("be16")
	rawKeyTheory["(encoding/binary.littleEndian).PutUint64"] = put("le64")
	rawKeyTheory["(encoding/binary.littleEndian).PutUint32"] = put("le32")
	rawKeyTheory["(encoding/binary.littleEndian).PutUint16"] = put("le16")
}

// byteOrderProblem: an integer argument of the key constructor that the prefix leaves open and that is written
// little-endian.
func byteOrderProblem(k []keySeg, nPrefix int) string {
	for i := nPrefix; i < len(k); i++ {
		bad := ""
		var find func(t *Term)
		find = func(t *Term) {
			if t == nil || bad != "" {
				return
			}
			if t.kind == tUF && strings.HasPrefix(t.Op, "le") && (t.Op == "le64" || t.Op == "le32" || t.Op == "le16") {
				bad = t.String()
				return
			}
			for _, a := range t.Args {
				find(a)
			}
		}
		find(k[i].t)
		if bad != "" {
			return fmt.Sprintf("the iterated integer component %s is written little-endian: byte order is not numeric order, so iteration no longer visits the keys in increasing order of that component", bad)
		}
	}
	return ""
}

func segStrings(ss []keySeg) []string {
	var out []string
	for _, s := range ss {
		out = append(out, s.t.String())
	}
	return out
}

type keySeg struct {
	t        *Term
	variable bool // length not fixed by the component's type
}

func (p *Program) staticKeyLayout(ld LoadSpec) []*Obligation {
	unit := moduleShort(ld.Module) + ":key-layout"
	var obls []*Obligation
	var fams []*Family
	for _, f := range p.famByName {
		fams = append(fams, f)
	}
	sort.Slice(fams, func(i, j int) bool { return fams[i].Name < fams[j].Name })
	for _, fam := range fams {
		kfn := p.funcsByKey[fam.KeyFunc]
		if kfn == nil || len(fam.Prefixes) == 0 {
			continue
		}
		var pnames []string
		for pk := range fam.Prefixes {
			pnames = append(pnames, pk)
		}
		sort.Strings(pnames)
		for _, pk := range pnames {
			pfn := p.funcsByKey[pk]
			if pfn == nil {
				continue
			}
			o := &Obligation{Unit: unit, Kind: "static", Label: fam.Name + ":" + lastName(pk), Goal: True}
			fixed := map[int]bool{}
			if fam.Decl != nil {
				for _, i := range fam.Decl.FixedLen {
					fixed[i] = true
				}
			}
			ksegs, kerr := p.keySegments(kfn, fixed, nil)
			psegs, perr := p.keySegments(pfn, fixed, fam.PrefixPos[pk])
			if os.Getenv("GOVC_TRACE") != "" {
				fmt.Fprintf(os.Stderr, "keylayout %s / %s: key %v (%s) prefix %v (%s)\n", fam.Name, lastName(pk), segStrings(ksegs), kerr, segStrings(psegs), perr)
			}
			switch {
			case kerr != "" || perr != "":
				// not analysable (branches, opaque parts): nothing is claimed, nothing is reported
				o.Src = "key layout of " + fam.Name + " not analysable (" + kerr + perr + "): A-KEYS assumed"
			default:
				why := layoutProblem(ksegs, psegs)
				if why == "" {
					why = byteOrderProblem(ksegs, len(psegs))
				}
				if why != "" {
					o.Goal = False
					o.Src = fmt.Sprintf("family %s: prefix constructor %s and key constructor %s: %s", fam.Name, lastName(pk), lastName(fam.KeyFunc), why)
				} else {
					o.Src = fmt.Sprintf("family %s: %s(..) is a self-delimiting byte prefix of %s(..) (%d / %d segments)", fam.Name, lastName(pk), lastName(fam.KeyFunc), len(psegs), len(ksegs))
				}
			}
			obls = append(obls, o)
		}
	}
	return obls
}

// keySegments executes a key constructor on symbolic arguments key_arg_<i> and returns its byte segments.
func (p *Program) keySegments(fn *ssa.Function, fixed map[int]bool, posMap []int) (segs []keySeg, problem string) {
	defer func() {
		if r := recover(); r != nil {
			segs, problem = nil, fmt.Sprintf("engine: %v", r)
		}
	}()
	x := &Exec{prog: p, unit: &Unit{Name: "keylayout:" + fn.Name()}, maxPaths: 50, inlined: map[string]bool{}, assumed: map[string]bool{}, unknown: map[string]bool{}, inputs: map[string]*Term{}, rawKeys: true}
	st := &State{mem: map[*Obj]Val{}}
	st.world = x.initialWorld(st)
	x.oldWorld = st.world
	var args []Val
	varLen := map[*Term]bool{}
	for i, prm := range fn.Params {
		s := SortOf(types.Unalias(prm.Type()))
		if s == nil {
			return nil, "parameter " + prm.Name() + " not representable"
		}
		ki := i
		if posMap != nil && i < len(posMap) {
			ki = posMap[i]
		}
		a := Sym(fmt.Sprintf("key_arg_%d", ki), s)
		args = append(args, a)
		// strings and raw byte slices have no fixed length; account addresses are fixed-length in a key (A-KEYS)
		if fixed[ki] {
			continue
		}
		if s == SStr || (s == SBytes && !strings.Contains(types.TypeString(prm.Type(), nil), "AccAddress")) {
			varLen[a] = true
		}
	}
	outs := x.runFunction(fn, args, nil, st, nil, nil)
	var rets []*Outcome
	for _, o := range outs {
		if !o.panic {
			rets = append(rets, o)
		}
	}
	if len(x.errs) > 0 {
		return nil, "unsupported: " + x.errs[0]
	}
	if len(rets) != 1 || len(rets[0].rets) != 1 {
		return nil, fmt.Sprintf("%d return paths", len(rets))
	}
	bt := x.asBytes(rets[0].st, rets[0].rets[0])
	if bt == nil {
		return nil, "result is not a byte string"
	}
	var flat func(t *Term)
	flat = func(t *Term) {
		if t.kind == tUF && t.Op == "bytes_concat" && len(t.Args) == 2 {
			flat(t.Args[0])
			flat(t.Args[1])
			return
		}
		v := false
		for a := range varLen {
			if t == a || (t.kind == tUF && (t.Op == "bytes_of_str" || t.Op == "bytes") && len(t.Args) == 1 && t.Args[0] == a) {
				v = true
			}
		}
		segs = append(segs, keySeg{t: t, variable: v})
	}
	flat(bt)
	return segs, ""
}

func layoutProblem(k, p []keySeg) string {
	if len(p) > len(k) {
		return "the prefix has more byte segments than the key"
	}
	for i := range p {
		if p[i].t != k[i].t {
			return fmt.Sprintf("the key does not begin with the prefix (segment %d: %s vs %s)", i+1, p[i].t, k[i].t)
		}
	}
	if len(p) == len(k) {
		return ""
	}
	// the prefix ends before the key does: its last segment must not be of variable length
	if last := p[len(p)-1]; last.variable {
		return fmt.Sprintf("the prefix ends in a variable-length component (%s) that is not terminated, so it also matches the keys of every longer value that starts with it", last.t)
	}
	// an unterminated variable-length component inside the prefix is equally ambiguous
	for i := 0; i+1 < len(p); i++ {
		if p[i].variable && p[i+1].variable {
			return fmt.Sprintf("two adjacent variable-length components (%s, %s) without a separator", p[i].t, p[i+1].t)
		}
	}
	return ""
}
