package main

import (
	"bytes"
	"context"
	"fmt"
	"os"
	"os/exec"
	"path/filepath"
	"strings"
	"sync"
	"time"
)

type SolverResult struct {
	Status string // "unsat", "sat", "unknown", "timeout", "error"
	Solver string
	Time   float64
	Output string            // raw output of the deciding (or last) solver
	Model  map[string]string // get-value results (term text -> value text) on sat
	All    map[string]string // per-solver status
}

type solverSpec struct {
	name string
	argv func(file string, timeoutS int) []string
}

var solvers = []solverSpec{
	{"z3-new", func(f string, t int) []string { return []string{"z3-new", fmt.Sprintf("-T:%d", t), f} }},
	{"z3", func(f string, t int) []string { return []string{"z3", fmt.Sprintf("-T:%d", t), f} }},
	{"cvc5", func(f string, t int) []string {
		return []string{"cvc5", fmt.Sprintf("--tlimit=%d", t*1000), "--arrays-exp", f}
	}},
}

var solverSem = make(chan struct{}, 14)

func runOne(ctx context.Context, sp solverSpec, file string, timeoutS int) (status, out string, dur float64) {
	solverSem <- struct{}{}
	defer func() { <-solverSem }()
	if ctx.Err() != nil {
		return "cancelled", "", 0
	}
	argv := sp.argv(file, timeoutS)
	cctx, cancel := context.WithTimeout(ctx, time.Duration(timeoutS+2)*time.Second)
	defer cancel()
	cmd := exec.CommandContext(cctx, argv[0], argv[1:]...)
	var buf bytes.Buffer
	cmd.Stdout = &buf
	cmd.Stderr = &buf
	t0 := time.Now()
	_ = cmd.Run()
	dur = time.Since(t0).Seconds()
	out = buf.String()
	// solvers may print warnings before the answer
	for strings.HasPrefix(out, "WARNING") || strings.HasPrefix(out, "(warning") {
		i := strings.Index(out, "\n")
		if i < 0 {
			break
		}
		out = out[i+1:]
	}
	first := strings.TrimSpace(strings.SplitN(out, "\n", 2)[0])
	switch first {
	case "unsat", "sat", "unknown":
		status = first
	case "timeout":
		status = "timeout"
	default:
		if ctx.Err() != nil {
			status = "cancelled"
		} else if cctx.Err() != nil {
			status = "timeout"
		} else if strings.Contains(out, "timeout") || strings.Contains(out, "interrupted") {
			status = "timeout"
		} else {
			status = "error"
		}
	}
	return
}

// Solve races the solvers on the script. expectSat only changes which answer stops the race early
// (any definite answer does).
func Solve(dir, name string, sc *Script, timeoutS int) *SolverResult {
	text := sc.Render("", true)
	file := filepath.Join(dir, sanitizeFile(name)+".smt2")
	if err := os.WriteFile(file, []byte(text), 0o644); err != nil {
		return &SolverResult{Status: "error", Output: err.Error()}
	}
	// cvc5 wants an explicit logic (and warns on its first output line otherwise); z3 is faster without one
	cvcFile := filepath.Join(dir, sanitizeFile(name)+".cvc5.smt2")
	cvcText := strings.Replace(text, "(set-option :produce-models true)\n", "(set-option :produce-models true)\n(set-logic ALL)\n", 1)
	cvcText = cvc5ConstArrays(cvcText)
	if err := os.WriteFile(cvcFile, []byte(cvcText), 0o644); err != nil {
		return &SolverResult{Status: "error", Output: err.Error()}
	}
	ctx, cancel := context.WithCancel(context.Background())
	defer cancel()
	type res struct {
		sp          solverSpec
		status, out string
		dur         float64
	}
	ch := make(chan res, len(solvers))
	var wg sync.WaitGroup
	for _, sp := range solvers {
		if skip := os.Getenv("GOVC_SKIP_SOLVER"); skip != "" && strings.Contains(skip, sp.name+",") {
			continue
		}
		wg.Add(1)
		go func(sp solverSpec) {
			defer wg.Done()
			f := file
			if sp.name == "cvc5" {
				f = cvcFile
			}
			st, out, d := runOne(ctx, sp, f, timeoutS)
			ch <- res{sp, st, out, d}
		}(sp)
	}
	go func() { wg.Wait(); close(ch) }()
	final := &SolverResult{Status: "unknown", All: map[string]string{}}
	var outs []string
	for r := range ch {
		final.All[r.sp.name] = r.status
		outs = append(outs, fmt.Sprintf("[%s %s %.2fs] %s", r.sp.name, r.status, r.dur, firstLines(r.out, 6)))
		if r.status == "unsat" || r.status == "sat" {
			if final.Status != "unsat" && final.Status != "sat" {
				final.Status = r.status
				final.Solver = r.sp.name
				final.Time = r.dur
				final.Output = r.out
				if r.status == "sat" {
					final.Model = parseGetValue(r.out)
				}
				cancel()
			}
		} else if final.Status != "unsat" && final.Status != "sat" {
			if r.status == "timeout" || final.Status == "unknown" && r.status != "cancelled" {
				if r.status != "cancelled" {
					final.Status = r.status
				}
			}
			if r.dur > final.Time {
				final.Time = r.dur
			}
		}
	}
	if final.Status != "unsat" && final.Status != "sat" {
		final.Output = strings.Join(outs, "\n")
		// error from all solvers is an engine problem; surface it
	}
	return final
}

func firstLines(s string, n int) string {
	ls := strings.Split(strings.TrimSpace(s), "\n")
	if len(ls) > n {
		ls = ls[:n]
	}
	return strings.Join(ls, " | ")
}

func sanitizeFile(s string) string {
	var sb strings.Builder
	for _, c := range s {
		if c >= 'a' && c <= 'z' || c >= 'A' && c <= 'Z' || c >= '0' && c <= '9' || c == '_' || c == '-' || c == '.' {
			sb.WriteRune(c)
		} else {
			sb.WriteRune('_')
		}
	}
	r := sb.String()
	if len(r) > 150 {
		r = r[:150]
	}
	return r
}

// parseGetValue parses "((t1 v1) (t2 v2) ...)" following the first line.
func parseGetValue(out string) map[string]string {
	m := map[string]string{}
	i := strings.Index(out, "\n")
	if i < 0 {
		return m
	}
	s := strings.TrimSpace(out[i+1:])
	sx, _ := parseSexp(s)
	if sx == nil {
		return m
	}
	for _, p := range sx.list {
		if len(p.list) == 2 {
			m[p.list[0].String()] = p.list[1].String()
		}
	}
	return m
}

type sexp struct {
	atom string
	list []*sexp
	isL  bool
}

func (s *sexp) String() string {
	if !s.isL {
		return s.atom
	}
	parts := make([]string, len(s.list))
	for i, x := range s.list {
		parts[i] = x.String()
	}
	return "(" + strings.Join(parts, " ") + ")"
}

func parseSexp(s string) (*sexp, string) {
	s = strings.TrimLeft(s, " \t\r\n")
	if s == "" {
		return nil, ""
	}
	if s[0] == '(' {
		s = s[1:]
		n := &sexp{isL: true}
		for {
			s = strings.TrimLeft(s, " \t\r\n")
			if s == "" {
				return n, ""
			}
			if s[0] == ')' {
				return n, s[1:]
			}
			var c *sexp
			c, s = parseSexp(s)
			if c == nil {
				return n, s
			}
			n.list = append(n.list, c)
		}
	}
	if s[0] == '|' {
		j := strings.Index(s[1:], "|")
		if j < 0 {
			return &sexp{atom: s}, ""
		}
		return &sexp{atom: s[:j+2]}, s[j+2:]
	}
	j := 0
	for j < len(s) && !strings.ContainsRune(" \t\r\n()", rune(s[j])) {
		j++
	}
	return &sexp{atom: s[:j]}, s[j:]
}

// smtIntValue converts a get-value integer text like "5", "(- 5)" into decimal text.
func smtIntValue(v string) (string, bool) {
	v = strings.TrimSpace(v)
	if strings.HasPrefix(v, "(-") {
		inner := strings.TrimSpace(strings.TrimSuffix(strings.TrimPrefix(v, "(-"), ")"))
		if _, ok := smtIntValue(inner); ok {
			return "-" + inner, true
		}
		return "", false
	}
	for _, c := range v {
		if c < '0' || c > '9' {
			return "", false
		}
	}
	return v, v != ""
}

// cvc5ConstArrays: cvc5 accepts ((as const (Array K V)) v) only for a value v. A constant array whose default mentions an
// uninterpreted constant (the empty string, the nil error, ...) is replaced by a declared constant without content
// (weaker: nothing is known about its elements), so that cvc5 can take part in the race at all.
func cvc5ConstArrays(text string) string {
	const marker = "((as const "
	if !strings.Contains(text, marker) {
		return text
	}
	var out strings.Builder
	decls := map[string]string{} // original text -> constant name
	var order []string
	sorts := map[string]string{}
	i := 0
	for i < len(text) {
		j := strings.Index(text[i:], marker)
		if j < 0 {
			out.WriteString(text[i:])
			break
		}
		j += i
		// find the end of the whole ((as const S) v) term by balancing parentheses
		depth, k := 0, j
		for k < len(text) {
			if text[k] == '|' { // quoted symbol
				k++
				for k < len(text) && text[k] != '|' {
					k++
				}
			} else if text[k] == '(' {
				depth++
			} else if text[k] == ')' {
				depth--
				if depth == 0 {
					break
				}
			}
			k++
		}
		if k >= len(text) {
			out.WriteString(text[i:])
			break
		}
		whole := text[j : k+1]
		// sort: between "((as const " and the matching ")"
		sd, m := 0, j+len(marker)
		start := m
		for m < len(text) {
			if text[m] == '(' {
				sd++
			} else if text[m] == ')' {
				if sd == 0 {
					break
				}
				sd--
			}
			m++
		}
		sortText := text[start:m]
		arg := strings.TrimSpace(text[m+1 : k])
		isValue := !strings.ContainsAny(arg, "|$") && !strings.Contains(arg, "!")
		if isValue {
			out.WriteString(text[i : k+1])
			i = k + 1
			continue
		}
		name, ok := decls[whole]
		if !ok {
			name = fmt.Sprintf("cvc5_constarr_%d", len(decls))
			decls[whole] = name
			sorts[name] = sortText
			order = append(order, name)
		}
		out.WriteString(text[i:j])
		out.WriteString(name)
		i = k + 1
	}
	res := out.String()
	if len(order) == 0 {
		return res
	}
	var d strings.Builder
	for _, n := range order {
		d.WriteString("(declare-const " + n + " " + sorts[n] + ")\n")
	}
	// declarations go before the first definition / assertion (after all sort declarations)
	pos := len(res)
	for _, key := range []string{"\n(define-fun ", "\n(assert ", "\n(declare-fun ", "\n(declare-const "} {
		if p := strings.Index(res, key); p >= 0 && p < pos {
			pos = p
		}
	}
	if pos == len(res) {
		return res
	}
	return res[:pos+1] + d.String() + res[pos+1:]
}
