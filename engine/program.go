package main

import (
	"fmt"
	"go/token"
	"go/types"
	"os"
	"path/filepath"
	"sort"
	"strings"

	"golang.org/x/tools/go/packages"
	"golang.org/x/tools/go/ssa"
	"golang.org/x/tools/go/ssa/ssautil"
)

type Ghost struct {
	Name string
	Sort *Sort
}

type Program struct {
	sliceWriteMemo map[string]int
	repo       string
	moduleDir  string
	fset       *token.FileSet
	pkgs       []*packages.Package
	ssaProg    *ssa.Program
	ssaPkgs    []*ssa.Package
	repoPkgs   map[*ssa.Package]bool
	contracts  map[string]*Contract // funcKey -> contract
	specFiles  []*SpecFile
	defines    map[string]*Define
	families   map[string]*Family // by key func ("types.GetPoolKey") or "global:types.ParamsKey"
	famByName  map[string]*Family
	prefixFns  map[string]*Family
	lemmas     map[string]*LemmaDecl
	ghosts     []Ghost
	globalObjs map[*Obj]*ssa.Global
	globals    map[*ssa.Global]*Obj
	gconsts    map[*ssa.Global]*Term
	sliceCells map[*Obj]bool
	loadErrs   []string
	funcsByKey map[string]*ssa.Function
	pointwiseDefs []*pointwiseDef
	allGEDefs     []*allGEDef
	coinsPredDefs []*coinsPredDef
	explicitCoins map[*Term][]coinEntry
	prefixGlobals map[string]*Family
}

func LoadProgram(repo, moduleDir string, patterns []string, extraSpecs []string) (*Program, error) {
	p := &Program{repo: repo, moduleDir: moduleDir, contracts: map[string]*Contract{}, defines: map[string]*Define{},
		families: map[string]*Family{}, famByName: map[string]*Family{}, prefixFns: map[string]*Family{}, lemmas: map[string]*LemmaDecl{},
		globalObjs: map[*Obj]*ssa.Global{}, globals: map[*ssa.Global]*Obj{}, gconsts: map[*ssa.Global]*Term{}, sliceCells: map[*Obj]bool{},
		repoPkgs: map[*ssa.Package]bool{}, funcsByKey: map[string]*ssa.Function{}, explicitCoins: map[*Term][]coinEntry{}, prefixGlobals: map[string]*Family{}}
	p.fset = token.NewFileSet()
	cfg := &packages.Config{
		Mode: packages.NeedName | packages.NeedFiles | packages.NeedCompiledGoFiles | packages.NeedImports | packages.NeedTypes |
			packages.NeedTypesSizes | packages.NeedSyntax | packages.NeedTypesInfo | packages.NeedModule,
		Dir:        filepath.Join(repo, moduleDir),
		Fset:       p.fset,
		BuildFlags: []string{"-tags=verif", "-mod=mod"},
		Env:        append(os.Environ(), "GOFLAGS=-mod=mod", "GOPROXY=off", "GOSUMDB=off", "GOTOOLCHAIN=local"),
	}
	pkgs, err := packages.Load(cfg, patterns...)
	if err != nil {
		return nil, err
	}
	for _, pk := range pkgs {
		for _, e := range pk.Errors {
			p.loadErrs = append(p.loadErrs, e.Error())
		}
	}
	if len(p.loadErrs) > 0 {
		return nil, fmt.Errorf("package load errors: %s", strings.Join(p.loadErrs, "; "))
	}
	p.pkgs = pkgs
	prog, spkgs := ssautil.Packages(pkgs, ssa.InstantiateGenerics|ssa.GlobalDebug)
	p.ssaProg = prog
	for _, sp := range spkgs {
		if sp == nil {
			continue
		}
		sp.Build()
		p.ssaPkgs = append(p.ssaPkgs, sp)
		p.repoPkgs[sp] = true
	}
	for _, sp := range p.ssaPkgs {
		p.scanInit(sp)
		p.indexFuncs(sp)
	}
	p.registerIfaceImpls()
	if os.Getenv("GOVC_DEBUG_IFACE") != "" {
		for k, m := range ifaceImpls {
			for c := range m {
				fmt.Println("iface", k, "<-", c)
			}
		}
	}
	// contract files
	var files []string
	for _, pk := range pkgs {
		for _, f := range pk.CompiledGoFiles {
			if filepath.Base(f) == "zz_verif_contracts.go" {
				files = append(files, f)
			}
		}
	}
	files = append(files, extraSpecs...)
	for _, f := range files {
		sf, err := ParseSpecFile(f)
		if err != nil {
			return nil, err
		}
		p.specFiles = append(p.specFiles, sf)
		for _, d := range sf.Defines {
			p.defines[d.Name] = d
		}
		for _, l := range sf.Lemmas {
			p.lemmas[l.Name] = l
		}
	}
	for _, sf := range p.specFiles {
		pkgName := p.pkgNameOfFile(sf.Path)
		for _, fd := range sf.Families {
			if err := p.declareFamily(fd, pkgName); err != nil {
				return nil, fmt.Errorf("%s:%d: %v", sf.Path, fd.Line, err)
			}
		}
		for _, c := range sf.Contracts {
			key := c.Func
			if pkgName != "" && !strings.Contains(strings.SplitN(c.Func, ".", 2)[0], "/") {
				key = pkgName + "." + c.Func
			}
			p.contracts[key] = c
		}
	}
	return p, nil
}

func (p *Program) pkgNameOfFile(path string) string {
	for _, pk := range p.pkgs {
		for _, f := range pk.CompiledGoFiles {
			if f == path {
				return pk.Types.Name()
			}
		}
	}
	return ""
}

func (p *Program) scanInit(sp *ssa.Package) {
	init := sp.Func("init")
	if init == nil {
		return
	}
	for _, b := range init.Blocks {
		for _, ins := range b.Instrs {
			st, ok := ins.(*ssa.Store)
			if !ok {
				continue
			}
			g, ok := st.Addr.(*ssa.Global)
			if !ok {
				continue
			}
			c, ok := st.Val.(*ssa.Const)
			if !ok {
				continue
			}
			x := &Exec{prog: p}
			if t, ok := x.constVal(c).(*Term); ok {
				p.gconsts[g] = t
			}
		}
	}
}

// registerIfaceImpls records, for the interface types of the repository, which concrete types are converted to them
// anywhere in the loaded packages (ssa.MakeInterface): a list whose element type is an interface with exactly one
// implementation in the loaded code is modelled as the list of those implementation values.
func (p *Program) registerIfaceImpls() {
	for _, fn := range p.funcsByKey {
		for _, b := range fn.Blocks {
			for _, ins := range b.Instrs {
				mi, ok := ins.(*ssa.MakeInterface)
				if !ok {
					continue
				}
				it := types.Unalias(mi.Type())
				nt, ok := it.(*types.Named)
				if !ok || nt.Obj().Pkg() == nil || !strings.HasPrefix(nt.Obj().Pkg().Path(), "mods.irisnet.org/") {
					continue
				}
				key := types.TypeString(it, nil)
				if ifaceImpls[key] == nil {
					ifaceImpls[key] = map[string]types.Type{}
				}
				ifaceImpls[key][types.TypeString(mi.X.Type(), nil)] = mi.X.Type()
			}
		}
	}
}

func (p *Program) indexFuncs(sp *ssa.Package) {
	for _, m := range sp.Members {
		switch mm := m.(type) {
		case *ssa.Function:
			p.funcsByKey[p.funcKey(mm)] = mm
			for _, af := range mm.AnonFuncs {
				p.funcsByKey[p.funcKey(af)] = af
			}
		case *ssa.Type:
			for _, t := range []types.Type{mm.Type(), types.NewPointer(mm.Type())} {
				ms := p.ssaProg.MethodSets.MethodSet(t)
				for i := 0; i < ms.Len(); i++ {
					fn := p.ssaProg.MethodValue(ms.At(i))
					if fn == nil || fn.Pkg != sp || fn.Synthetic != "" {
						continue
					}
					p.funcsByKey[p.funcKey(fn)] = fn
					for _, af := range fn.AnonFuncs {
						p.funcsByKey[p.funcKey(af)] = af
					}
				}
			}
		}
	}
}

func (p *Program) globalConst(g *ssa.Global) *Term { return p.gconsts[g] }

func (p *Program) globalObj(x *Exec, g *ssa.Global) *Obj {
	if o, ok := p.globals[g]; ok {
		return o
	}
	o := &Obj{id: -len(p.globals) - 1, typ: g.Type().(*types.Pointer).Elem(), name: g.Name()}
	p.globals[g] = o
	p.globalObjs[o] = g
	return o
}

func (p *Program) ssaPkgByTypes(tp *types.Package) *ssa.Package {
	return p.ssaProg.Package(tp)
}

func (p *Program) isRepoFunc(fn *ssa.Function) bool {
	if fn.Pkg != nil {
		return p.repoPkgs[fn.Pkg]
	}
	if fn.Parent() != nil {
		return p.isRepoFunc(fn.Parent())
	}
	if o := fn.Origin(); o != nil && o != fn {
		return p.isRepoFunc(o)
	}
	return false
}

// funcKey: "keeper.Keeper.swapCoins", "keeper.GetInputPrice", "types.Params.Validate", closures "keeper.Keeper.Foo$1"
func (p *Program) funcKey(fn *ssa.Function) string {
	pkg := ""
	root := fn
	for root.Parent() != nil {
		root = root.Parent()
	}
	if root.Pkg != nil {
		pkg = root.Pkg.Pkg.Name()
	}
	name := fn.Name()
	if fn.Parent() != nil {
		// closure: Parent$N ; fn.Name() already is "Parent$N"
	}
	if recv := root.Signature.Recv(); recv != nil {
		rt := recv.Type()
		if pt, ok := rt.(*types.Pointer); ok {
			rt = pt.Elem()
		}
		rn := types.TypeString(rt, func(*types.Package) string { return "" })
		return pkg + "." + rn + "." + name
	}
	return pkg + "." + name
}

func (p *Program) contractFor(fn *ssa.Function) *Contract {
	return p.contracts[p.funcKey(fn)]
}

func (p *Program) lookupMethod(t types.Type, m *types.Func) *ssa.Function {
	ms := p.ssaProg.MethodSets.MethodSet(t)
	sel := ms.Lookup(m.Pkg(), m.Name())
	if sel == nil {
		return nil
	}
	fn := p.ssaProg.MethodValue(sel)
	if fn == nil || fn.Blocks == nil {
		return nil
	}
	return fn
}

func (p *Program) familyList() []*Family {
	var fs []*Family
	for _, f := range p.famByName {
		fs = append(fs, f)
	}
	sort.Slice(fs, func(i, j int) bool { return fs[i].Name < fs[j].Name })
	return fs
}

func (p *Program) lookupType(pkgName, name string) types.Type {
	for _, sp := range p.ssaPkgs {
		if sp.Pkg.Name() == pkgName {
			if o := sp.Pkg.Scope().Lookup(name); o != nil {
				return o.Type()
			}
		}
		for _, imp := range sp.Pkg.Imports() {
			if imp.Name() == pkgName || importAliases[pkgName] == imp.Path() {
				if o := imp.Scope().Lookup(name); o != nil {
					return o.Type()
				}
			}
		}
	}
	return nil
}

func (p *Program) declareFamily(fd *FamilyDecl, pkgName string) error {
	fam := &Family{Name: fd.Name, Enc: fd.Enc, Decl: fd, Prefixes: map[string]int{}}
	// value sort
	switch fd.Value {
	case "uint64", "int64", "int", "uint32":
		fam.ValSort = SInt
		if fam.Enc == "" {
			fam.Enc = "be64"
		}
	case "string":
		fam.ValSort = SBytes
		fam.Enc = "raw"
	case "str":
		fam.ValSort = SStr
		if fam.Enc == "" {
			fam.Enc = "proto"
		}
	case "bytes":
		fam.ValSort = SBytes
		fam.Enc = "raw"
	case "sdk.Coin":
		fam.ValSort = SCoin
		if fam.Enc == "" {
			fam.Enc = "proto"
		}
	case "unit", "":
		fam.ValSort = SBool
		fam.Enc = "unit"
	default:
		parts := strings.SplitN(fd.Value, ".", 2)
		var t types.Type
		if len(parts) == 2 {
			t = p.lookupType(parts[0], parts[1])
		} else {
			t = p.lookupType(pkgName, fd.Value)
		}
		if t == nil {
			return fmt.Errorf("family %s: unknown value type %s", fd.Name, fd.Value)
		}
		fam.ValType = t
		fam.ValSort = SortOf(t)
		if fam.ValSort == nil {
			return fmt.Errorf("family %s: value type %s not representable", fd.Name, fd.Value)
		}
		if fam.Enc == "" {
			fam.Enc = "proto"
		}
	}
	// key sorts from the key function's signature
	if strings.HasPrefix(fd.KeyFunc, "global:") || strings.HasPrefix(fd.KeyFunc, "const:") {
		fam.KeyFunc = fd.KeyFunc
	} else if strings.HasPrefix(fd.KeyFunc, "ghost:") {
		// ghost state: a world component no store key reaches; only contracts (of trusted functions) speak about it.
		// key ghost:Str,Bytes gives the key sorts.
		fam.KeyFunc = "ghost:" + fd.Name
		fam.Enc = "ghost"
		for _, n := range strings.Split(strings.TrimPrefix(fd.KeyFunc, "ghost:"), ",") {
			switch strings.TrimSpace(n) {
			case "Str":
				fam.KeySorts = append(fam.KeySorts, SStr)
			case "Bytes":
				fam.KeySorts = append(fam.KeySorts, SBytes)
			case "Int":
				fam.KeySorts = append(fam.KeySorts, SInt)
			case "":
			default:
				return fmt.Errorf("family %s: ghost key sort %s", fd.Name, n)
			}
		}
	} else {
		fn := p.findFunc(fd.KeyFunc)
		if fn == nil {
			return fmt.Errorf("family %s: key function %s not found", fd.Name, fd.KeyFunc)
		}
		fam.KeyFunc = p.funcKey(fn)
		for _, prm := range fn.Params {
			s := SortOf(prm.Type())
			if s == nil {
				return fmt.Errorf("family %s: key parameter %s not representable", fd.Name, prm.Name())
			}
			fam.KeySorts = append(fam.KeySorts, s)
		}
	}
	switch len(fam.KeySorts) {
	case 0:
		fam.KeySort = SBool
	case 1:
		fam.KeySort = fam.KeySorts[0]
	default:
		var fs []Field
		for i, s := range fam.KeySorts {
			fs = append(fs, Field{fmt.Sprintf("k%d", i), s})
		}
		fam.KeySort = DataSort("Key<"+fd.Name+">", fs)
	}
	fam.Sort = MapSort(fam.KeySort, fam.ValSort)
	p.families[fam.KeyFunc] = fam
	p.famByName[fam.Name] = fam
	for _, pf := range fd.Prefix {
		if strings.HasPrefix(pf, "global:") || strings.HasPrefix(pf, "const:") {
			p.prefixGlobals[pf] = fam
			continue
		}
		fn := p.findFunc(pf)
		if fn == nil {
			return fmt.Errorf("family %s: prefix function %s not found", fd.Name, pf)
		}
		fam.Prefixes[p.funcKey(fn)] = len(fn.Params)
		p.prefixFns[p.funcKey(fn)] = fam
		// parameters of the prefix constructor fix the key components of the same name (default: the leading ones)
		if kf := p.funcsByKey[fam.KeyFunc]; kf != nil {
			var pos []int
			okAll := true
			for _, pp := range fn.Params {
				found := -1
				for i, kp := range kf.Params {
					if kp.Name() == pp.Name() {
						found = i
					}
				}
				if found < 0 {
					okAll = false
					break
				}
				pos = append(pos, found)
			}
			leading := okAll
			for i, q := range pos {
				if q != i {
					leading = false
				}
			}
			if okAll && !leading {
				if fam.PrefixPos == nil {
					fam.PrefixPos = map[string][]int{}
				}
				fam.PrefixPos[p.funcKey(fn)] = pos
			}
		}
	}
	for pf, ufs := range fd.PrefixBy {
		fn := p.findFunc(pf)
		if fn == nil {
			return fmt.Errorf("family %s: prefixby function %s not found", fd.Name, pf)
		}
		if len(fam.KeySorts) != 1 || len(ufs) != len(fn.Params) {
			return fmt.Errorf("family %s: prefixby %s needs a single key component and one projection per parameter", fd.Name, pf)
		}
		if fam.PrefixBy == nil {
			fam.PrefixBy = map[string][]string{}
		}
		fam.PrefixBy[p.funcKey(fn)] = ufs
		p.prefixFns[p.funcKey(fn)] = fam
	}
	return nil
}

func (p *Program) findFunc(name string) *ssa.Function {
	if fn, ok := p.funcsByKey[name]; ok {
		return fn
	}
	return nil
}

// keyCall: a call to a declared key constructor yields a symbolic key.
func (p *Program) keyCall(x *Exec, st *State, fn *ssa.Function, args []Val) (Val, bool) {
	key := p.funcKey(fn)
	if fam, ok := p.families[key]; ok {
		kv := &KeyVal{Fam: fam}
		for i, a := range args {
			t := x.coerceKeyArg(a, fam.KeySorts[i])
			if t == nil {
				x.errorf("key constructor %s: argument %d not a term of sort %s (%T)", key, i, fam.KeySorts[i], a)
				return nil, false
			}
			kv.Args = append(kv.Args, t)
		}
		return kv, true
	}
	if fam, ok := p.prefixFns[key]; ok {
		kv := &KeyVal{Fam: fam, Partial: true}
		if ufs, by := fam.PrefixBy[key]; by {
			kv.By = ufs
			for i, a := range args {
				var t *Term
				switch v := a.(type) {
				case *Term:
					t = v
				default:
					t = x.coerceKeyArg(a, SBytes)
				}
				if t == nil {
					x.errorf("prefix constructor %s: argument %d not a term (%T)", key, i, a)
					return nil, false
				}
				kv.Args = append(kv.Args, t)
			}
			return kv, true
		}
		kv.Pos = fam.PrefixPos[key]
		for i, a := range args {
			ks := fam.KeySorts[i]
			if kv.Pos != nil {
				ks = fam.KeySorts[kv.Pos[i]]
			}
			t := x.coerceKeyArg(a, ks)
			if t == nil {
				x.errorf("prefix constructor %s: argument %d not a term (%T)", key, i, a)
				return nil, false
			}
			kv.Args = append(kv.Args, t)
		}
		return kv, true
	}
	return nil, false
}

// usual import aliases of dependency packages (the contract files name types the way the sources do)
var importAliases = map[string]string{
	"gogotypes": "github.com/cosmos/gogoproto/types",
	"sdkmath":   "cosmossdk.io/math",
	"tmbytes":   "github.com/cometbft/cometbft/libs/bytes",
}

func (p *Program) isRepoPkg(path string) bool {
	for pk := range p.repoPkgs {
		if pk.Pkg != nil && pk.Pkg.Path() == path {
			return true
		}
	}
	return strings.HasPrefix(path, "mods.irisnet.org/")
}

// writesSliceElems: does fn store into the elements of its slice parameter number pi (s[i] = v, s[i].F = v), directly or
// through a static callee it hands the slice to? Go slices share their backing array, so such a store is visible to
// the caller in every variable holding that slice.
func (p *Program) writesSliceElems(fn *ssa.Function, pi int) bool {
	if p.sliceWriteMemo == nil {
		p.sliceWriteMemo = map[string]int{}
	}
	key := fmt.Sprintf("%s#%d", p.funcKey(fn), pi)
	switch p.sliceWriteMemo[key] {
	case 1:
		return false
	case 2:
		return true
	}
	p.sliceWriteMemo[key] = 1 // in progress / no
	if pi >= len(fn.Params) || len(fn.Blocks) == 0 {
		return false
	}
	if _, ok := fn.Params[pi].Type().Underlying().(*types.Slice); !ok {
		return false
	}
	// values that denote the parameter's backing array
	alias := map[ssa.Value]bool{fn.Params[pi]: true}
	for changed := true; changed; {
		changed = false
		for _, b := range fn.Blocks {
			for _, ins := range b.Instrs {
				v, ok := ins.(ssa.Value)
				if !ok || alias[v] {
					continue
				}
				switch in := ins.(type) {
				case *ssa.ChangeType:
					if alias[in.X] {
						alias[v], changed = true, true
					}
				case *ssa.Slice:
					if alias[in.X] {
						alias[v], changed = true, true
					}
				case *ssa.Phi:
					for _, e := range in.Edges {
						if alias[e] {
							alias[v], changed = true, true
						}
					}
				case *ssa.IndexAddr:
					if alias[in.X] {
						alias[v], changed = true, true // address into the array
					}
				case *ssa.FieldAddr:
					if alias[in.X] {
						alias[v], changed = true, true
					}
				}
			}
		}
	}
	res := false
	for _, b := range fn.Blocks {
		for _, ins := range b.Instrs {
			switch in := ins.(type) {
			case *ssa.Store:
				if alias[in.Addr] {
					res = true
				}
			case ssa.CallInstruction:
				cc := in.Common()
				if callee := cc.StaticCallee(); callee != nil {
					for j, a := range cc.Args {
						if alias[a] {
							if _, isSl := a.Type().Underlying().(*types.Slice); isSl && p.writesSliceElems(callee, j) {
								res = true
							}
						}
					}
				}
			}
		}
	}
	if res {
		p.sliceWriteMemo[key] = 2
	}
	return res
}
