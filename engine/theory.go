package main

import (
	"go/types"
	"fmt"
	"math/big"
	"strings"
)

// Theory table: semantics of dependency functions (cosmossdk.io/math, sdk types, errors, store, codec).
// Everything here is part of the trusted base and is reported by name in the evidence.

var theory = map[string]TheoryFn{}

const (
	pMath = "cosmossdk.io/math."
	pInt  = "(cosmossdk.io/math.Int)."
	pDec  = "(cosmossdk.io/math.LegacyDec)."
	pSdk  = "github.com/cosmos/cosmos-sdk/types."
	pCoin = "(github.com/cosmos/cosmos-sdk/types.Coin)."
	pCoins = "(github.com/cosmos/cosmos-sdk/types.Coins)."
	pAcc  = "(github.com/cosmos/cosmos-sdk/types.AccAddress)."
	pCtx  = "(github.com/cosmos/cosmos-sdk/types.Context)."
)

func ten(k int64) *Term { return BigLit(new(big.Int).Exp(big.NewInt(10), big.NewInt(k), nil)) }

func mkDec(raw *Term) *Term { return Con(SDec, False, raw) }
func decRaw(d *Term) *Term  { return SelField(d, 1) }
func decNil(d *Term) *Term  { return SelField(d, 0) }

// chopRound: banker's rounding of x / 10^18 (sdk chopPrecisionAndRound)
func chopRound(x *Term) *Term {
	one := BigLit(decOne)
	half := BigLit(new(big.Int).Quo(decOne, big.NewInt(2)))
	ax := Abs(x)
	q := EDiv(ax, one)
	r := EMod(ax, one)
	up := Or(Gt(r, half), And(Eq(r, half), Eq(EMod(q, IntLit(2)), IntLit(1))))
	res := Ite(up, Add(q, IntLit(1)), q)
	return Ite(Lt(x, IntLit(0)), Neg(res), res)
}

func chopTrunc(x *Term) *Term { return TDiv(x, BigLit(decOne)) }

func intBin(op func(a, b *Term) *Term) TheoryFn {
	return func(x *Exec, f *Frame, st *State, c *CallInfo) Val { return op(c.T(0), c.T(1)) }
}

func decNilCheck(x *Exec, f *Frame, st *State, c *CallInfo, ds ...*Term) {
	for _, d := range ds {
		x.panicSite(f, st, decNil(d), "nil LegacyDec in "+lastName(c.Name)+" at "+c.Pos)
	}
}

func decBin(op func(a, b *Term) *Term) TheoryFn {
	return func(x *Exec, f *Frame, st *State, c *CallInfo) Val {
		a, b := c.T(0), c.T(1)
		decNilCheck(x, f, st, c, a, b)
		return mkDec(op(decRaw(a), decRaw(b)))
	}
}

func decCmp(op func(a, b *Term) *Term) TheoryFn {
	return func(x *Exec, f *Frame, st *State, c *CallInfo) Val {
		a, b := c.T(0), c.T(1)
		decNilCheck(x, f, st, c, a, b)
		return op(decRaw(a), decRaw(b))
	}
}

func addrOfBech(s *Term) *Term { return UF("addr_of_bech", SBytes, s) }
func bechOfAddr(a *Term) *Term { return UF("bech_of_addr", SStr, a) }
func bechOK(s *Term) *Term     { return UF("bech_ok", SBool, s) }
func moduleAddr(name *Term) *Term {
	return UF("module_addr", SBytes, name)
}

// bechFacts: round-trip facts for an address term (instantiated where String()/FromBech32 are used)
func bechFacts(st *State, a *Term) {
	s := bechOfAddr(a)
	st.assume(Eq(addrOfBech(s), a))
	st.assume(Or(bechOK(s), Eq(a, BytesNil), bytesEmpty(a)))
}

func nonNilErr(x *Exec, st *State, name string) *Term {
	e := x.freshTerm(name, SErr)
	st.assume(Neq(e, ErrNil))
	return e
}

func init() {
	// ---------------- math.Int
	theory[pInt+"Add"] = intBin(Add)
	theory[pInt+"Sub"] = intBin(Sub)
	theory[pInt+"Mul"] = intBin(Mul)
	theory[pInt+"Quo"] = func(x *Exec, f *Frame, st *State, c *CallInfo) Val {
		x.panicSite(f, st, Eq(c.T(1), IntLit(0)), "Int.Quo division by zero at "+c.Pos)
		return TDiv(c.T(0), c.T(1))
	}
	theory[pInt+"Mod"] = func(x *Exec, f *Frame, st *State, c *CallInfo) Val {
		x.panicSite(f, st, Eq(c.T(1), IntLit(0)), "Int.Mod division by zero at "+c.Pos)
		return EMod(c.T(0), c.T(1))
	}
	theory[pInt+"AddRaw"] = intBin(Add)
	theory[pInt+"SubRaw"] = intBin(Sub)
	theory[pInt+"MulRaw"] = intBin(Mul)
	theory[pInt+"QuoRaw"] = theory[pInt+"Quo"]
	theory[pInt+"ModRaw"] = theory[pInt+"Mod"]
	theory[pInt+"Neg"] = func(x *Exec, f *Frame, st *State, c *CallInfo) Val { return Neg(c.T(0)) }
	theory[pInt+"Abs"] = func(x *Exec, f *Frame, st *State, c *CallInfo) Val { return Abs(c.T(0)) }
	theory[pInt+"LT"] = intBin(Lt)
	theory[pInt+"LTE"] = intBin(Le)
	theory[pInt+"GT"] = intBin(Gt)
	theory[pInt+"GTE"] = intBin(Ge)
	theory[pInt+"Equal"] = intBin(Eq)
	theory[pInt+"IsZero"] = func(x *Exec, f *Frame, st *State, c *CallInfo) Val { return Eq(c.T(0), IntLit(0)) }
	theory[pInt+"IsPositive"] = func(x *Exec, f *Frame, st *State, c *CallInfo) Val { return Gt(c.T(0), IntLit(0)) }
	theory[pInt+"IsNegative"] = func(x *Exec, f *Frame, st *State, c *CallInfo) Val { return Lt(c.T(0), IntLit(0)) }
	theory[pInt+"IsNil"] = func(x *Exec, f *Frame, st *State, c *CallInfo) Val { return False }
	theory[pInt+"Sign"] = func(x *Exec, f *Frame, st *State, c *CallInfo) Val {
		return Ite(Gt(c.T(0), IntLit(0)), IntLit(1), Ite(Lt(c.T(0), IntLit(0)), IntLit(-1), IntLit(0)))
	}
	theory[pInt+"BigInt"] = func(x *Exec, f *Frame, st *State, c *CallInfo) Val { return c.T(0) }
	theory[pInt+"BigIntMut"] = theory[pInt+"BigInt"]
	theory[pInt+"IsInt64"] = func(x *Exec, f *Frame, st *State, c *CallInfo) Val {
		return And(Ge(c.T(0), BigLit(new(big.Int).Neg(two63))), Lt(c.T(0), BigLit(two63)))
	}
	theory[pInt+"IsUint64"] = func(x *Exec, f *Frame, st *State, c *CallInfo) Val {
		return And(Ge(c.T(0), IntLit(0)), Lt(c.T(0), BigLit(two64)))
	}
	theory[pInt+"Int64"] = func(x *Exec, f *Frame, st *State, c *CallInfo) Val {
		x.panicSite(f, st, Not(And(Ge(c.T(0), BigLit(new(big.Int).Neg(two63))), Lt(c.T(0), BigLit(two63)))), "Int64() out of bound at "+c.Pos)
		return c.T(0)
	}
	theory[pInt+"Uint64"] = func(x *Exec, f *Frame, st *State, c *CallInfo) Val {
		x.panicSite(f, st, Not(And(Ge(c.T(0), IntLit(0)), Lt(c.T(0), BigLit(two64)))), "Uint64() out of bound at "+c.Pos)
		return c.T(0)
	}
	theory[pInt+"String"] = func(x *Exec, f *Frame, st *State, c *CallInfo) Val { return UF("int_to_str", SStr, c.T(0)) }
	theory[pInt+"ToLegacyDec"] = func(x *Exec, f *Frame, st *State, c *CallInfo) Val { return mkDec(Mul(c.T(0), BigLit(decOne))) }
	theory[pMath+"NewInt"] = func(x *Exec, f *Frame, st *State, c *CallInfo) Val { return c.T(0) }
	theory[pMath+"NewIntFromUint64"] = theory[pMath+"NewInt"]
	theory[pMath+"NewIntFromBigInt"] = theory[pMath+"NewInt"]
	theory[pMath+"NewIntFromBigIntMut"] = theory[pMath+"NewInt"]
	theory[pMath+"NewUint"] = theory[pMath+"NewInt"]
	theory[pMath+"ZeroInt"] = func(x *Exec, f *Frame, st *State, c *CallInfo) Val { return IntLit(0) }
	theory[pMath+"OneInt"] = func(x *Exec, f *Frame, st *State, c *CallInfo) Val { return IntLit(1) }
	theory[pMath+"MinInt"] = func(x *Exec, f *Frame, st *State, c *CallInfo) Val {
		return Ite(Le(c.T(0), c.T(1)), c.T(0), c.T(1))
	}
	theory[pMath+"MaxInt"] = func(x *Exec, f *Frame, st *State, c *CallInfo) Val {
		return Ite(Ge(c.T(0), c.T(1)), c.T(0), c.T(1))
	}
	theory[pMath+"NewIntWithDecimal"] = func(x *Exec, f *Frame, st *State, c *CallInfo) Val {
		return Mul(c.T(0), pow10Term(c.T(1)))
	}
	theory[pMath+"NewIntFromString"] = func(x *Exec, f *Frame, st *State, c *CallInfo) Val {
		return &TupleVal{[]Val{UF("int_of_str", SInt, c.T(0)), UF("int_of_str_ok", SBool, c.T(0))}}
	}
	// ---------------- LegacyDec
	theory[pMath+"LegacyOneDec"] = func(x *Exec, f *Frame, st *State, c *CallInfo) Val { return mkDec(BigLit(decOne)) }
	theory[pMath+"LegacyZeroDec"] = func(x *Exec, f *Frame, st *State, c *CallInfo) Val { return mkDec(IntLit(0)) }
	theory[pMath+"LegacySmallestDec"] = func(x *Exec, f *Frame, st *State, c *CallInfo) Val { return mkDec(IntLit(1)) }
	theory[pMath+"LegacyNewDec"] = func(x *Exec, f *Frame, st *State, c *CallInfo) Val { return mkDec(Mul(c.T(0), BigLit(decOne))) }
	theory[pMath+"LegacyNewDecFromInt"] = theory[pMath+"LegacyNewDec"]
	theory[pMath+"LegacyNewDecFromBigInt"] = theory[pMath+"LegacyNewDec"]
	theory[pMath+"LegacyNewDecWithPrec"] = func(x *Exec, f *Frame, st *State, c *CallInfo) Val {
		x.panicSite(f, st, Or(Lt(c.T(1), IntLit(0)), Gt(c.T(1), IntLit(18))), "LegacyNewDecWithPrec precision at "+c.Pos)
		return mkDec(Mul(c.T(0), pow10Term(Sub(IntLit(18), c.T(1)))))
	}
	theory[pMath+"LegacyNewDecFromIntWithPrec"] = theory[pMath+"LegacyNewDecWithPrec"]
	theory[pMath+"LegacyNewDecFromBigIntWithPrec"] = theory[pMath+"LegacyNewDecWithPrec"]
	theory[pMath+"LegacyMustNewDecFromStr"] = func(x *Exec, f *Frame, st *State, c *CallInfo) Val {
		if s := c.T(0); s != nil && s.kind == tSym && strings.HasPrefix(s.Name, "str:") {
			var lit string
			fmt.Sscanf(s.Name[4:], "%q", &lit)
			if r, ok := new(big.Rat).SetString(lit); ok {
				r.Mul(r, new(big.Rat).SetInt(decOne))
				if r.IsInt() {
					return mkDec(BigLit(r.Num()))
				}
			}
		}
		return mkDec(UF("dec_of_str", SInt, c.T(0)))
	}
	theory[pDec+"Add"] = decBin(Add)
	theory[pDec+"Sub"] = decBin(Sub)
	theory[pDec+"Mul"] = decBin(func(a, b *Term) *Term {
		// (z * 10^18) * b / 10^18 is exact: no rounding takes place
		for _, p := range [][2]*Term{{a, b}, {b, a}} {
			u, v := p[0], p[1]
			if u.kind == tApp && u.Op == "*" && len(u.Args) == 2 {
				if u.Args[1].IsLit() && u.Args[1].Lit.Cmp(decOne) == 0 {
					return Mul(u.Args[0], v)
				}
				if u.Args[0].IsLit() && u.Args[0].Lit.Cmp(decOne) == 0 {
					return Mul(u.Args[1], v)
				}
			}
			if u.IsLit() && new(big.Int).Mod(u.Lit, decOne).Sign() == 0 {
				return Mul(BigLit(new(big.Int).Quo(u.Lit, decOne)), v)
			}
		}
		return chopRound(Mul(a, b))
	})
	theory[pDec+"MulTruncate"] = decBin(func(a, b *Term) *Term { return chopTrunc(Mul(a, b)) })
	theory[pDec+"MulInt"] = func(x *Exec, f *Frame, st *State, c *CallInfo) Val {
		decNilCheck(x, f, st, c, c.T(0))
		return mkDec(Mul(decRaw(c.T(0)), c.T(1)))
	}
	theory[pDec+"MulInt64"] = theory[pDec+"MulInt"]
	theory[pDec+"Quo"] = func(x *Exec, f *Frame, st *State, c *CallInfo) Val {
		a, b := c.T(0), c.T(1)
		decNilCheck(x, f, st, c, a, b)
		x.panicSite(f, st, Eq(decRaw(b), IntLit(0)), "Dec.Quo division by zero at "+c.Pos)
		// (a * 10^36) Quo b, then chopPrecisionAndRound
		sq := new(big.Int).Mul(decOne, decOne)
		return mkDec(chopRound(TDiv(Mul(decRaw(a), BigLit(sq)), decRaw(b))))
	}
	theory[pDec+"QuoTruncate"] = func(x *Exec, f *Frame, st *State, c *CallInfo) Val {
		a, b := c.T(0), c.T(1)
		decNilCheck(x, f, st, c, a, b)
		x.panicSite(f, st, Eq(decRaw(b), IntLit(0)), "Dec.QuoTruncate division by zero at "+c.Pos)
		sq := new(big.Int).Mul(decOne, decOne)
		return mkDec(chopTrunc(TDiv(Mul(decRaw(a), BigLit(sq)), decRaw(b))))
	}
	theory[pDec+"QuoInt"] = func(x *Exec, f *Frame, st *State, c *CallInfo) Val {
		decNilCheck(x, f, st, c, c.T(0))
		x.panicSite(f, st, Eq(c.T(1), IntLit(0)), "Dec.QuoInt division by zero at "+c.Pos)
		return mkDec(TDiv(decRaw(c.T(0)), c.T(1)))
	}
	theory[pDec+"QuoInt64"] = theory[pDec+"QuoInt"]
	theory[pDec+"TruncateInt"] = func(x *Exec, f *Frame, st *State, c *CallInfo) Val {
		decNilCheck(x, f, st, c, c.T(0))
		return chopTrunc(decRaw(c.T(0)))
	}
	theory[pDec+"TruncateInt64"] = func(x *Exec, f *Frame, st *State, c *CallInfo) Val {
		decNilCheck(x, f, st, c, c.T(0))
		r := chopTrunc(decRaw(c.T(0)))
		x.panicSite(f, st, Not(And(Ge(r, BigLit(new(big.Int).Neg(two63))), Lt(r, BigLit(two63)))), "TruncateInt64 out of bound at "+c.Pos)
		return r
	}
	theory[pDec+"TruncateDec"] = func(x *Exec, f *Frame, st *State, c *CallInfo) Val {
		decNilCheck(x, f, st, c, c.T(0))
		return mkDec(Mul(chopTrunc(decRaw(c.T(0))), BigLit(decOne)))
	}
	theory[pDec+"RoundInt"] = func(x *Exec, f *Frame, st *State, c *CallInfo) Val {
		decNilCheck(x, f, st, c, c.T(0))
		return chopRound(decRaw(c.T(0)))
	}
	theory[pDec+"RoundInt64"] = theory[pDec+"RoundInt"]
	theory[pDec+"Ceil"] = func(x *Exec, f *Frame, st *State, c *CallInfo) Val {
		decNilCheck(x, f, st, c, c.T(0))
		r := decRaw(c.T(0))
		one := BigLit(decOne)
		// ceil = -floor(-r/1) ; with euclidean div: ceil(r/one) = -((-r) div one)
		return mkDec(Mul(Neg(EDiv(Neg(r), one)), one))
	}
	theory[pDec+"Neg"] = func(x *Exec, f *Frame, st *State, c *CallInfo) Val {
		decNilCheck(x, f, st, c, c.T(0))
		return mkDec(Neg(decRaw(c.T(0))))
	}
	theory[pDec+"Abs"] = func(x *Exec, f *Frame, st *State, c *CallInfo) Val {
		decNilCheck(x, f, st, c, c.T(0))
		return mkDec(Abs(decRaw(c.T(0))))
	}
	theory[pDec+"LT"] = decCmp(Lt)
	theory[pDec+"LTE"] = decCmp(Le)
	theory[pDec+"GT"] = decCmp(Gt)
	theory[pDec+"GTE"] = decCmp(Ge)
	theory[pDec+"Equal"] = decCmp(Eq)
	theory[pDec+"IsNil"] = func(x *Exec, f *Frame, st *State, c *CallInfo) Val { return decNil(c.T(0)) }
	theory[pDec+"IsZero"] = func(x *Exec, f *Frame, st *State, c *CallInfo) Val {
		decNilCheck(x, f, st, c, c.T(0))
		return Eq(decRaw(c.T(0)), IntLit(0))
	}
	theory[pDec+"IsNegative"] = func(x *Exec, f *Frame, st *State, c *CallInfo) Val {
		decNilCheck(x, f, st, c, c.T(0))
		return Lt(decRaw(c.T(0)), IntLit(0))
	}
	theory[pDec+"IsPositive"] = func(x *Exec, f *Frame, st *State, c *CallInfo) Val {
		decNilCheck(x, f, st, c, c.T(0))
		return Gt(decRaw(c.T(0)), IntLit(0))
	}
	theory[pDec+"IsInteger"] = func(x *Exec, f *Frame, st *State, c *CallInfo) Val {
		decNilCheck(x, f, st, c, c.T(0))
		return Eq(EMod(decRaw(c.T(0)), BigLit(decOne)), IntLit(0))
	}
	theory[pDec+"BigInt"] = func(x *Exec, f *Frame, st *State, c *CallInfo) Val {
		// nil Dec gives nil *big.Int; using it later would panic in big.Int methods. We flag here.
		decNilCheck(x, f, st, c, c.T(0))
		return decRaw(c.T(0))
	}
	theory[pDec+"String"] = func(x *Exec, f *Frame, st *State, c *CallInfo) Val { return UF("dec_to_str", SStr, decRaw(c.T(0))) }
	theory[pDec+"Clone"] = func(x *Exec, f *Frame, st *State, c *CallInfo) Val { return c.T(0) }
	theory[pMath+"LegacyMinDec"] = decBin(func(a, b *Term) *Term { return Ite(Le(a, b), a, b) })
	theory[pMath+"LegacyMaxDec"] = decBin(func(a, b *Term) *Term { return Ite(Ge(a, b), a, b) })

	// ---------------- Coin
	theory[pSdk+"NewCoin"] = func(x *Exec, f *Frame, st *State, c *CallInfo) Val {
		x.panicSite(f, st, Lt(c.T(1), IntLit(0)), "NewCoin negative amount at "+c.Pos)
		x.panicSite(f, st, Not(UF("denom_valid", SBool, c.T(0))), "NewCoin invalid denom at "+c.Pos)
		return Con(SCoin, c.T(0), c.T(1))
	}
	theory[pSdk+"NewInt64Coin"] = theory[pSdk+"NewCoin"]
	theory[pSdk+"ValidateDenom"] = func(x *Exec, f *Frame, st *State, c *CallInfo) Val {
		e := x.freshTerm("denomerr", SErr)
		st.assume(Eq(Eq(e, ErrNil), UF("denom_valid", SBool, c.T(0))))
		return e
	}
	theory[pCoin+"IsZero"] = func(x *Exec, f *Frame, st *State, c *CallInfo) Val { return Eq(SelField(c.T(0), 1), IntLit(0)) }
	theory[pCoin+"IsPositive"] = func(x *Exec, f *Frame, st *State, c *CallInfo) Val { return Gt(SelField(c.T(0), 1), IntLit(0)) }
	theory[pCoin+"IsNegative"] = func(x *Exec, f *Frame, st *State, c *CallInfo) Val { return Lt(SelField(c.T(0), 1), IntLit(0)) }
	theory[pCoin+"IsNil"] = func(x *Exec, f *Frame, st *State, c *CallInfo) Val { return False }
	theory[pCoin+"IsValid"] = func(x *Exec, f *Frame, st *State, c *CallInfo) Val {
		return And(UF("denom_valid", SBool, SelField(c.T(0), 0)), Ge(SelField(c.T(0), 1), IntLit(0)))
	}
	theory[pCoin+"Validate"] = func(x *Exec, f *Frame, st *State, c *CallInfo) Val {
		e := x.freshTerm("coinerr", SErr)
		st.assume(Eq(Eq(e, ErrNil), And(UF("denom_valid", SBool, SelField(c.T(0), 0)), Ge(SelField(c.T(0), 1), IntLit(0)))))
		return e
	}
	theory[pCoin+"String"] = func(x *Exec, f *Frame, st *State, c *CallInfo) Val {
		return UF("coin_to_str", SStr, c.T(0))
	}
	theory[pCoin+"GetDenom"] = func(x *Exec, f *Frame, st *State, c *CallInfo) Val { return SelField(c.T(0), 0) }
	coinSameDenom := func(x *Exec, f *Frame, st *State, c *CallInfo) {
		x.panicSite(f, st, Neq(SelField(c.T(0), 0), SelField(c.T(1), 0)), "coin denom mismatch in "+lastName(c.Name)+" at "+c.Pos)
	}
	theory[pCoin+"Add"] = func(x *Exec, f *Frame, st *State, c *CallInfo) Val {
		coinSameDenom(x, f, st, c)
		return Con(SCoin, SelField(c.T(0), 0), Add(SelField(c.T(0), 1), SelField(c.T(1), 1)))
	}
	theory[pCoin+"AddAmount"] = func(x *Exec, f *Frame, st *State, c *CallInfo) Val {
		return Con(SCoin, SelField(c.T(0), 0), Add(SelField(c.T(0), 1), c.T(1)))
	}
	theory[pCoin+"Sub"] = func(x *Exec, f *Frame, st *State, c *CallInfo) Val {
		coinSameDenom(x, f, st, c)
		r := Sub(SelField(c.T(0), 1), SelField(c.T(1), 1))
		x.panicSite(f, st, Lt(r, IntLit(0)), "Coin.Sub negative result at "+c.Pos)
		return Con(SCoin, SelField(c.T(0), 0), r)
	}
	theory[pCoin+"SubAmount"] = func(x *Exec, f *Frame, st *State, c *CallInfo) Val {
		r := Sub(SelField(c.T(0), 1), c.T(1))
		x.panicSite(f, st, Lt(r, IntLit(0)), "Coin.SubAmount negative result at "+c.Pos)
		return Con(SCoin, SelField(c.T(0), 0), r)
	}
	theory[pCoin+"IsGTE"] = func(x *Exec, f *Frame, st *State, c *CallInfo) Val {
		coinSameDenom(x, f, st, c)
		return Ge(SelField(c.T(0), 1), SelField(c.T(1), 1))
	}
	theory[pCoin+"IsLT"] = func(x *Exec, f *Frame, st *State, c *CallInfo) Val {
		coinSameDenom(x, f, st, c)
		return Lt(SelField(c.T(0), 1), SelField(c.T(1), 1))
	}
	theory[pCoin+"IsLTE"] = func(x *Exec, f *Frame, st *State, c *CallInfo) Val {
		coinSameDenom(x, f, st, c)
		return Le(SelField(c.T(0), 1), SelField(c.T(1), 1))
	}
	theory[pCoin+"IsEqual"] = func(x *Exec, f *Frame, st *State, c *CallInfo) Val {
		return And(Eq(SelField(c.T(0), 0), SelField(c.T(1), 0)), Eq(SelField(c.T(0), 1), SelField(c.T(1), 1)))
	}
	theory[pCoin+"Equal"] = theory[pCoin+"IsEqual"]

	// ---------------- Coins (Array Str Int; absent denom = 0; all amounts >= 0 for valid coins)
	theory[pSdk+"NewCoins"] = func(x *Exec, f *Frame, st *State, c *CallInfo) Val {
		cur := ZeroOf(SCoins)
		switch a := c.Args[0].(type) {
		case *GoSlice:
			var denoms []*Term
			var ents []coinEntry
			for _, e := range a.Elems {
				ct := e.(*Term)
				d, am := SelField(ct, 0), SelField(ct, 1)
				x.panicSite(f, st, Lt(am, IntLit(0)), "NewCoins negative amount at "+c.Pos)
				for _, pd := range denoms {
					x.panicSite(f, st, Eq(pd, d), "NewCoins duplicate denom at "+c.Pos)
				}
				denoms = append(denoms, d)
				cur = Store(cur, d, Add(Select(cur, d), am))
				ents = append(ents, coinEntry{d, am})
			}
			x.prog.explicitCoins[cur] = ents
			return cur
		case *NilPtr:
			return cur
		case *Term:
			if u := unwrapCoinsSlice(a); u.Sort == SCoins {
				return u // NewCoins(c...) of a valid Coins value is that value
			}
			if isSliceSort(a.Sort) {
				// NewCoins() of an empty (nil) argument list is the empty Coins value
				if a.kind == tCon && len(a.Args) > 0 && a.Args[0].IsLit() && a.Args[0].Lit.Sign() == 0 {
					return cur
				}
				r := UF("coins_of_slice", SCoins, a)
				return r
			}
		}
		x.errorf("NewCoins with %T", c.Args[0])
		return x.freshTerm("coins", SCoins)
	}
	theory[pCoins+"AmountOf"] = func(x *Exec, f *Frame, st *State, c *CallInfo) Val {
		r := Select(c.T(0), c.T(1))
		return r
	}
	theory[pCoins+"AmountOfNoDenomValidation"] = theory[pCoins+"AmountOf"]
	theory[pCoins+"Add"] = func(x *Exec, f *Frame, st *State, c *CallInfo) Val {
		cur := c.T(0)
		switch a := c.Args[1].(type) {
		case *GoSlice:
			ents, explicit := x.prog.explicitCoins[cur]
			if cur.kind == tConst {
				explicit = true
			}
			ents = append([]coinEntry(nil), ents...)
			for _, e := range a.Elems {
				ct := e.(*Term)
				d, am := SelField(ct, 0), SelField(ct, 1)
				cur = Store(cur, d, Add(Select(cur, d), am))
				ents = append(ents, coinEntry{d, am})
			}
			if explicit {
				x.prog.explicitCoins[cur] = ents
			}
			return cur
		case *Term:
			a = unwrapCoinsSlice(a)
			if a.Sort != SCoins && isSliceSort(a.Sort) {
				// Add(list...) of a []sdk.Coin list: the list is taken to be a valid Coins value (sorted, no duplicate
				// denominations), so that adding its coins one by one adds the Coins value NewCoins(list...) denotes
				x.assumed["Coins.Add of a []sdk.Coin list at "+c.Pos+": the list is a valid Coins value"] = true
				a = UF("coins_of_slice", SCoins, a)
			}
			if a.Sort == SCoins {
				return x.pointwise(st, "coins_add", cur, a, func(p, q *Term) *Term { return Add(p, q) })
			}
		case *NilPtr:
			return cur
		}
		x.errorf("Coins.Add with %T", c.Args[1])
		return x.freshTerm("coins", SCoins)
	}
	theory[pCoins+"Sub"] = func(x *Exec, f *Frame, st *State, c *CallInfo) Val {
		cur := c.T(0)
		switch a := c.Args[1].(type) {
		case *GoSlice:
			for _, e := range a.Elems {
				ct := e.(*Term)
				d, am := SelField(ct, 0), SelField(ct, 1)
				nv := Sub(Select(cur, d), am)
				x.panicSite(f, st, Lt(nv, IntLit(0)), "Coins.Sub negative result at "+c.Pos)
				cur = Store(cur, d, nv)
			}
			return cur
		case *Term:
			a = unwrapCoinsSlice(a)
			if a.Sort == SCoins {
				r := x.pointwise(st, "coins_sub", cur, a, func(p, q *Term) *Term { return Sub(p, q) })
				x.panicSite(f, st, Not(x.allGE(st, cur, a)), "Coins.Sub negative result at "+c.Pos)
				return r
			}
		}
		x.errorf("Coins.Sub with %T", c.Args[1])
		return x.freshTerm("coins", SCoins)
	}
	theory[pCoins+"SafeSub"] = func(x *Exec, f *Frame, st *State, c *CallInfo) Val {
		cur := c.T(0)
		neg := False
		switch a := c.Args[1].(type) {
		case *GoSlice:
			for _, e := range a.Elems {
				ct := e.(*Term)
				d, am := SelField(ct, 0), SelField(ct, 1)
				nv := Sub(Select(cur, d), am)
				neg = Or(neg, Lt(nv, IntLit(0)))
				cur = Store(cur, d, nv)
			}
			return &TupleVal{[]Val{cur, neg}}
		case *Term:
			a = unwrapCoinsSlice(a)
			if a.Sort == SCoins {
				r := x.pointwise(st, "coins_sub", cur, a, func(p, q *Term) *Term { return Sub(p, q) })
				return &TupleVal{[]Val{r, Not(x.allGE(st, cur, a))}}
			}
		}
		x.errorf("Coins.SafeSub with %T", c.Args[1])
		return &TupleVal{[]Val{x.freshTerm("coins", SCoins), x.freshTerm("neg", SBool)}}
	}
	theory[pCoins+"IsZero"] = func(x *Exec, f *Frame, st *State, c *CallInfo) Val {
		return x.coinsPred(st, "coins_iszero", c.T(0), func(a *Term) *Term { return Eq(a, IntLit(0)) }, true)
	}
	theory[pCoins+"Empty"] = theory[pCoins+"IsZero"]
	theory[pCoins+"IsAllPositive"] = func(x *Exec, f *Frame, st *State, c *CallInfo) Val {
		// non-empty and every listed coin positive. In the array model (absent == 0): no negative entry and not all zero.
		nn := x.coinsPred(st, "coins_nonneg", c.T(0), func(a *Term) *Term { return Ge(a, IntLit(0)) }, true)
		z := x.coinsPred(st, "coins_iszero", c.T(0), func(a *Term) *Term { return Eq(a, IntLit(0)) }, true)
		return And(nn, Not(z))
	}
	theory[pCoins+"IsAnyNegative"] = func(x *Exec, f *Frame, st *State, c *CallInfo) Val {
		return Not(x.coinsPred(st, "coins_nonneg", c.T(0), func(a *Term) *Term { return Ge(a, IntLit(0)) }, true))
	}
	theory[pCoins+"Min"] = func(x *Exec, f *Frame, st *State, c *CallInfo) Val {
		return x.pointwise(st, "coins_min", c.T(0), c.T(1), func(p, q *Term) *Term { return Ite(Le(p, q), p, q) })
	}
	theory[pCoins+"Max"] = func(x *Exec, f *Frame, st *State, c *CallInfo) Val {
		return x.pointwise(st, "coins_max", c.T(0), c.T(1), func(p, q *Term) *Term { return Ite(Le(p, q), q, p) })
	}
	theory[pCoins+"IsValid"] = func(x *Exec, f *Frame, st *State, c *CallInfo) Val { return UF("coins_valid", SBool, c.T(0)) }
	theory[pCoins+"Validate"] = func(x *Exec, f *Frame, st *State, c *CallInfo) Val {
		e := x.freshTerm("coinserr", SErr)
		st.assume(Eq(Eq(e, ErrNil), UF("coins_valid", SBool, c.T(0))))
		return e
	}
	theory[pCoins+"IsAllGTE"] = func(x *Exec, f *Frame, st *State, c *CallInfo) Val { return x.allGE(st, c.T(0), c.T(1)) }
	theory[pCoins+"IsAllLTE"] = func(x *Exec, f *Frame, st *State, c *CallInfo) Val { return x.allGE(st, c.T(1), c.T(0)) }
	theory[pCoins+"IsEqual"] = func(x *Exec, f *Frame, st *State, c *CallInfo) Val { return Eq(c.T(0), c.T(1)) }
	theory[pCoins+"Equal"] = theory[pCoins+"IsEqual"]
	theory[pCoins+"Sort"] = func(x *Exec, f *Frame, st *State, c *CallInfo) Val { return c.T(0) }
	theory[pCoins+"Len"] = func(x *Exec, f *Frame, st *State, c *CallInfo) Val {
		l := UF("coins_len", SInt, c.T(0))
		st.assume(lenRange(l))
		return l
	}
	theory[pCoins+"String"] = func(x *Exec, f *Frame, st *State, c *CallInfo) Val { return UF("coins_to_str", SStr, c.T(0)) }
	theory[pCoins+"GetDenomByIndex"] = func(x *Exec, f *Frame, st *State, c *CallInfo) Val {
		return UF("coins_denom_at", SStr, c.T(0), c.T(1))
	}
	theory[pCoins+"DenomsSubsetOf"] = func(x *Exec, f *Frame, st *State, c *CallInfo) Val {
		return UF("coins_subset", SBool, c.T(0), c.T(1))
	}

	// ---------------- addresses
	theory[pSdk+"AccAddressFromBech32"] = func(x *Exec, f *Frame, st *State, c *CallInfo) Val {
		s := c.T(0)
		a := addrOfBech(s)
		e := x.freshTerm("bech32err", SErr)
		st.assume(Eq(Eq(e, ErrNil), bechOK(s)))
		// a valid bech32 string decodes to a non-empty address and re-encodes to itself
		st.assume(Implies(bechOK(s), And(Neq(a, BytesNil), Not(bytesEmpty(a)), Eq(bechOfAddr(a), s))))
		return &TupleVal{[]Val{Ite(bechOK(s), a, BytesNil), e}}
	}
	theory[pSdk+"MustAccAddressFromBech32"] = func(x *Exec, f *Frame, st *State, c *CallInfo) Val {
		s := c.T(0)
		x.panicSite(f, st, Not(bechOK(s)), "MustAccAddressFromBech32 at "+c.Pos)
		a := addrOfBech(s)
		st.assume(And(Neq(a, BytesNil), Not(bytesEmpty(a)), Eq(bechOfAddr(a), s)))
		return a
	}
	theory[pAcc+"String"] = func(x *Exec, f *Frame, st *State, c *CallInfo) Val {
		a := c.T(0)
		if a == nil && len(c.Args) > 0 {
			a = x.asBytes(st, c.Args[0]) // an address cut out of a store key
		}
		if a == nil {
			return x.freshTerm("bech", SStr)
		}
		bechFacts(st, a)
		return bechOfAddr(a)
	}
	theory[pAcc+"Empty"] = func(x *Exec, f *Frame, st *State, c *CallInfo) Val {
		return Or(Eq(c.T(0), BytesNil), bytesEmpty(c.T(0)))
	}
	theory[pAcc+"Equals"] = func(x *Exec, f *Frame, st *State, c *CallInfo) Val {
		if t, ok := c.Args[1].(*Term); ok {
			return Eq(c.T(0), t)
		}
		if iv, ok := c.Args[1].(*IfaceVal); ok {
			if t, ok := iv.Dyn.(*Term); ok && t.Sort == SBytes {
				return Eq(c.T(0), t)
			}
		}
		return x.freshTerm("addreq", SBool)
	}
	theory[pAcc+"Bytes"] = func(x *Exec, f *Frame, st *State, c *CallInfo) Val { return c.T(0) }
	theory[pSdk+"VerifyAddressFormat"] = func(x *Exec, f *Frame, st *State, c *CallInfo) Val {
		return x.freshTerm("addrfmt", SErr)
	}
	theory["github.com/cosmos/cosmos-sdk/x/auth/types.NewModuleAddress"] = func(x *Exec, f *Frame, st *State, c *CallInfo) Val {
		a := moduleAddr(c.T(0))
		st.assume(And(Neq(a, BytesNil), Not(bytesEmpty(a))))
		return a
	}
	theory[pSdk+"Uint64ToBigEndian"] = func(x *Exec, f *Frame, st *State, c *CallInfo) Val {
		return &EncVal{Enc: "be64", V: c.T(0), Nil: False}
	}
	theory[pSdk+"BigEndianToUint64"] = func(x *Exec, f *Frame, st *State, c *CallInfo) Val {
		switch v := c.Args[0].(type) {
		case *EncVal:
			if v.Enc == "be64" {
				st.assume(And(Ge(v.V, IntLit(0)), Lt(v.V, BigLit(two64))))
				return Ite(v.Nil, IntLit(0), v.V)
			}
		case *Term:
			r := UF("be64_decode", SInt, v)
			st.assume(And(Ge(r, IntLit(0)), Lt(r, BigLit(two64))))
			return r
		}
		r := x.freshTerm("be64", SInt)
		st.assume(And(Ge(r, IntLit(0)), Lt(r, BigLit(two64))))
		return r
	}

	// ---------------- errors
	wrap := func(x *Exec, f *Frame, st *State, c *CallInfo) Val {
		e := c.T(0)
		if e == nil {
			return nonNilErr(x, st, "wrapped")
		}
		if e.kind == tSym && strings.HasPrefix(e.Name, "err:") && e != ErrNil && e.Name != "err:nil" {
			r := x.freshTerm("wrapped", SErr)
			st.assume(Neq(r, ErrNil))
			st.assume(Eq(UF("err_root", SErr, r), e))
			return r
		}
		r := x.freshTerm("wrapped", SErr)
		st.assume(Eq(Eq(r, ErrNil), Eq(e, ErrNil)))
		st.assume(Eq(UF("err_root", SErr, r), UF("err_root", SErr, e)))
		return r
	}
	theory["cosmossdk.io/errors.Wrap"] = wrap
	theory["cosmossdk.io/errors.Wrapf"] = wrap
	theory["(*cosmossdk.io/errors.Error).Wrap"] = func(x *Exec, f *Frame, st *State, c *CallInfo) Val {
		return nonNilErr(x, st, "wrapped")
	}
	theory["(*cosmossdk.io/errors.Error).Wrapf"] = theory["(*cosmossdk.io/errors.Error).Wrap"]
	theory["fmt.Errorf"] = func(x *Exec, f *Frame, st *State, c *CallInfo) Val { return nonNilErr(x, st, "errorf") }
	// grpc status errors: nil exactly for codes.OK (0)
	grpcErr := func(x *Exec, f *Frame, st *State, c *CallInfo) Val {
		e := x.freshTerm("grpcerr", SErr)
		if code := c.T(0); code != nil && code.Sort == SInt {
			st.assume(Eq(Eq(e, ErrNil), Eq(code, IntLit(0))))
		}
		return e
	}
	theory["google.golang.org/grpc/status.Errorf"] = grpcErr
	theory["google.golang.org/grpc/status.Error"] = grpcErr
	theory["errors.New"] = func(x *Exec, f *Frame, st *State, c *CallInfo) Val { return nonNilErr(x, st, "errnew") }
	theory["fmt.Sprintf"] = func(x *Exec, f *Frame, st *State, c *CallInfo) Val {
		return x.sprintf(st, c)
	}
	theory["fmt.Sprint"] = theory["fmt.Sprintf"]
	theory["error.Error"] = func(x *Exec, f *Frame, st *State, c *CallInfo) Val {
		if t := c.T(0); t != nil {
			x.panicSite(f, st, Eq(t, ErrNil), "Error() on nil error at "+c.Pos)
			return UF("err_msg", SStr, t)
		}
		return x.freshTerm("errmsg", SStr)
	}
	theory["strings.TrimSpace"] = func(x *Exec, f *Frame, st *State, c *CallInfo) Val { return UF("str_trim", SStr, c.T(0)) }
	theory["strings.ToLower"] = func(x *Exec, f *Frame, st *State, c *CallInfo) Val { return UF("str_lower", SStr, c.T(0)) }
	theory["strings.HasPrefix"] = func(x *Exec, f *Frame, st *State, c *CallInfo) Val {
		return UF("str_hasprefix", SBool, c.T(0), c.T(1))
	}
	theory["strings.TrimPrefix"] = func(x *Exec, f *Frame, st *State, c *CallInfo) Val {
		return UF("str_trimprefix", SStr, c.T(0), c.T(1))
	}
	theory["strings.Contains"] = func(x *Exec, f *Frame, st *State, c *CallInfo) Val {
		return UF("str_contains", SBool, c.T(0), c.T(1))
	}

	// ---------------- context
	theory[pSdk+"UnwrapSDKContext"] = func(x *Exec, f *Frame, st *State, c *CallInfo) Val {
		return &OpaqueVal{Name: "ctx", Type: c.ResTyp}
	}
	theory[pSdk+"WrapSDKContext"] = func(x *Exec, f *Frame, st *State, c *CallInfo) Val {
		return &OpaqueVal{Name: "ctx", Type: c.ResTyp}
	}
	theory[pCtx+"BlockHeight"] = func(x *Exec, f *Frame, st *State, c *CallInfo) Val { return st.world.get("height") }
	theory[pCtx+"BlockTime"] = func(x *Exec, f *Frame, st *State, c *CallInfo) Val { return st.world.get("time") }
	theory[pCtx+"KVStore"] = func(x *Exec, f *Frame, st *State, c *CallInfo) Val { return &StoreVal{} }
	theory[pCtx+"Logger"] = func(x *Exec, f *Frame, st *State, c *CallInfo) Val { return &OpaqueVal{Name: "logger"} }
	theory[pCtx+"EventManager"] = func(x *Exec, f *Frame, st *State, c *CallInfo) Val { return &OpaqueVal{Name: "eventmanager"} }
	theory[pCtx+"TxBytes"] = func(x *Exec, f *Frame, st *State, c *CallInfo) Val { return Sym("w0_txbytes", SBytes) }
	theory[pCtx+"ChainID"] = func(x *Exec, f *Frame, st *State, c *CallInfo) Val { return Sym("w0_chainid", SStr) }
	theory[pCtx+"WithLogger"] = func(x *Exec, f *Frame, st *State, c *CallInfo) Val { return c.Args[0] }
	theory[pCtx+"WithEventManager"] = func(x *Exec, f *Frame, st *State, c *CallInfo) Val { return c.Args[0] }
	theory[pCtx+"Context"] = func(x *Exec, f *Frame, st *State, c *CallInfo) Val { return c.Args[0] }
	for _, n := range []string{"EmitEvent", "EmitEvents", "EmitTypedEvent", "EmitTypedEvents"} {
		theory["(*github.com/cosmos/cosmos-sdk/types.EventManager)."+n] = func(x *Exec, f *Frame, st *State, c *CallInfo) Val {
			if c.ResTyp != nil && SortOf(c.ResTyp) == SErr {
				return ErrNil
			}
			return nil
		}
		theory["EventManagerI."+n] = theory["(*github.com/cosmos/cosmos-sdk/types.EventManager)."+n]
	}
	theory[pSdk+"NewEvent"] = func(x *Exec, f *Frame, st *State, c *CallInfo) Val { return &OpaqueVal{Name: "event"} }
	theory[pSdk+"NewAttribute"] = func(x *Exec, f *Frame, st *State, c *CallInfo) Val { return &OpaqueVal{Name: "attr"} }
	for _, n := range []string{"Info", "Error", "Debug", "Warn"} {
		theory["Logger."+n] = func(x *Exec, f *Frame, st *State, c *CallInfo) Val { return nil }
	}
	theory["Logger.With"] = func(x *Exec, f *Frame, st *State, c *CallInfo) Val { return c.Args[0] }

	// ---------------- KV store and codec
	theory["KVStore.Get"] = func(x *Exec, f *Frame, st *State, c *CallInfo) Val { return x.storeGet(st, c.Args[1], c.Pos) }
	theory["KVStore.Has"] = func(x *Exec, f *Frame, st *State, c *CallInfo) Val { return x.storeHas(st, c.Args[1], c.Pos) }
	theory["KVStore.Set"] = func(x *Exec, f *Frame, st *State, c *CallInfo) Val {
		x.storeSet(st, c.Args[1], c.Args[2], c.Pos)
		return nil
	}
	theory["KVStore.Delete"] = func(x *Exec, f *Frame, st *State, c *CallInfo) Val {
		x.storeDelete(st, c.Args[1], c.Pos)
		return nil
	}
	for _, n := range []string{"Get", "Has", "Set", "Delete"} {
		theory["(cosmossdk.io/store/prefix.Store)."+n] = theory["KVStore."+n]
	}
	marshal := func(must bool) TheoryFn {
		return func(x *Exec, f *Frame, st *State, c *CallInfo) Val {
			var v Val = c.Args[1]
			if iv, ok := v.(*IfaceVal); ok {
				v = iv.Dyn
			}
			if pv, ok := v.(*PtrVal); ok {
				v = x.load(st, pv)
			}
			var res Val
			if t, ok := v.(*Term); ok {
				res = &EncVal{Enc: "proto", V: unwrapGogo(t), Nil: False}
			} else {
				x.errorf("Marshal of %T at %s", v, c.Pos)
				res = &EncVal{Enc: "raw", V: x.freshTerm("bz", SBytes), Nil: False}
			}
			if must {
				return res
			}
			return &TupleVal{[]Val{res, ErrNil}}
		}
	}
	unmarshal := func(must bool) TheoryFn {
		return func(x *Exec, f *Frame, st *State, c *CallInfo) Val {
			var dst Val = c.Args[2]
			if iv, ok := dst.(*IfaceVal); ok {
				dst = iv.Dyn
			}
			pv, ok := dst.(*PtrVal)
			if !ok {
				x.errorf("Unmarshal into %T at %s", dst, c.Pos)
				return ErrNil
			}
			cur, _ := x.load(st, pv).(*Term)
			var e *Term = ErrNil
			switch src := c.Args[1].(type) {
			case *EncVal:
				if src.Enc == "stored" && cur != nil {
					// a value read from this module's own store through an iterator whose prefix is outside the key
					// model: written by typed code (A-CODEC), content unconstrained
					nv := x.freshTerm("decoded", cur.Sort)
					st.assume(TypeInv(nv, pv.Obj.typ, 0))
					x.store(st, pv, nv)
					x.assumed["A-CODEC: values reached through an opaque iterator decode with the type they are read as"] = true
					break
				}
				if src.Enc == "raw" && cur != nil {
					// bytes of unknown provenance (foreign store): unconstrained decoded value
					nv := x.freshTerm("decoded", cur.Sort)
					st.assume(TypeInv(nv, pv.Obj.typ, 0))
					x.store(st, pv, nv)
					if must {
						x.panicSite(f, st, x.freshTerm("unmarshal_fails", SBool), "MustUnmarshal of foreign bytes at "+c.Pos)
					} else {
						e = x.freshTerm("unmarshalerr", SErr)
					}
					break
				}
				if cur != nil {
					if v := rewrapGogo(src.V, cur.Sort); v != nil && src.Enc == "proto" {
						// values in the store were written by typed code (A-CODEC): machine-integer ranges hold
						st.assume(TypeInv(v, pv.Obj.typ, 0))
						x.store(st, pv, Ite(src.Nil, ZeroOf(cur.Sort), v))
						break
					}
				}
				x.errorf("Unmarshal: encoded value sort %s does not match destination at %s", src.V.Sort, c.Pos)
			case *Term:
				if src.kind == tUF && src.Op == "any_bytes" && cur != nil {
					// bytes taken from a protobuf Any: decode to the packed value (A-CODEC)
					x.store(st, pv, UF("any_val<"+cur.Sort.Name+">", cur.Sort, src.Args[0]))
					break
				}
				if cur != nil {
					nv := x.freshTerm("decoded", cur.Sort)
					st.assume(TypeInv(nv, pv.Obj.typ, 0))
					x.store(st, pv, nv)
				}
				if must {
					x.panicSite(f, st, x.freshTerm("unmarshal_fails", SBool), "MustUnmarshal of foreign bytes at "+c.Pos)
				} else {
					e = x.freshTerm("unmarshalerr", SErr)
				}
			default:
				// arbitrary bytes: result is unconstrained, may fail
				if cur != nil {
					nv := x.freshTerm("decoded", cur.Sort)
					st.assume(TypeInv(nv, pv.Obj.typ, 0))
					x.store(st, pv, nv)
				}
				if must {
					x.panicSite(f, st, x.freshTerm("unmarshal_fails", SBool), "MustUnmarshal of foreign bytes at "+c.Pos)
				} else {
					e = x.freshTerm("unmarshalerr", SErr)
				}
			}
			if must {
				return nil
			}
			return e
		}
	}
	for _, cn := range []string{"BinaryCodec", "Codec", "Marshaler"} {
		theory[cn+".MustMarshal"] = marshal(true)
		theory[cn+".Marshal"] = marshal(false)
		theory[cn+".MustUnmarshal"] = unmarshal(true)
		theory[cn+".Unmarshal"] = unmarshal(false)
		theory[cn+".MustMarshalLengthPrefixed"] = marshal(true)
		theory[cn+".MustUnmarshalLengthPrefixed"] = unmarshal(true)
	}
	// a package-level amino codec used on the same messages (A-CODEC: decoding returns what was encoded)
	ac := "(*github.com/cosmos/cosmos-sdk/codec.AminoCodec)."
	theory[ac+"MustMarshal"] = marshal(true)
	theory[ac+"Marshal"] = marshal(false)
	theory[ac+"MustUnmarshal"] = unmarshal(true)
	theory[ac+"Unmarshal"] = unmarshal(false)
}

// unwrapGogo: gogotypes wrappers (UInt64Value, StringValue, ...) are encoded as their Value field.
func unwrapGogo(t *Term) *Term {
	if t.Sort.Kind == KData && strings.HasPrefix(t.Sort.Name, "gogoproto_types_") && strings.HasSuffix(t.Sort.Name, "Value") {
		if i := t.Sort.FieldIndex("Value"); i >= 0 {
			return SelField(t, i)
		}
	}
	return t
}

func rewrapGogo(v *Term, want *Sort) *Term {
	if v.Sort == want {
		return v
	}
	if want.Kind == KData && strings.HasPrefix(want.Name, "gogoproto_types_") && strings.HasSuffix(want.Name, "Value") {
		if i := want.FieldIndex("Value"); i >= 0 && want.Fields[i].Sort == v.Sort {
			return WithField(ZeroOf(want), i, v)
		}
	}
	return nil
}

func (x *Exec) sprintf(st *State, c *CallInfo) Val {
	// injective formatting is NOT assumed; result is a function of the format and the term arguments
	var ts []*Term
	name := "sprintf"
	if f := c.T(0); f != nil {
		ts = append(ts, f)
	}
	if len(c.Args) > 1 {
		if gs, ok := c.Args[1].(*GoSlice); ok {
			for _, e := range gs.Elems {
				v := e
				if iv, ok := v.(*IfaceVal); ok {
					v = iv.Dyn
				}
				if t, ok := v.(*Term); ok {
					ts = append(ts, t)
					name += "_" + sanitizeFile(t.Sort.Name)
				} else {
					return x.freshTerm("sprintf", SStr)
				}
			}
		}
	}
	// "%d" of one integer is the decimal rendering strconv.FormatInt(_, 10) / Itoa give
	if len(ts) == 2 && ts[0].kind == tSym && ts[0].Name == `str:"%d"` && ts[1].Sort == SInt {
		return UF("fmt_int", SStr, ts[1])
	}
	return UF(name, SStr, ts...)
}

// pointwise binary operation on coin arrays: result R with R[d] = op(A[d], B[d]) for the denominations
// of interest (instantiated at emission time for every Str index term in the VC).
func (x *Exec) pointwise(st *State, name string, a, b *Term, op func(p, q *Term) *Term) *Term {
	r := x.freshTerm(name, SCoins)
	x.prog.pointwiseDefs = append(x.prog.pointwiseDefs, &pointwiseDef{R: r, A: a, B: b, Op: op})
	return r
}

type pointwiseDef struct {
	R, A, B *Term
	Op      func(p, q *Term) *Term
}

// allGE(a, b): for all denominations a[d] >= b[d]. Encoded as an uninterpreted predicate with
// instantiations at emission time (positive occurrences) and a witness (negative occurrences).
func (x *Exec) allGE(st *State, a, b *Term) *Term {
	p := x.freshTerm("allge", SBool)
	w := x.freshTerm("allge_w", SStr)
	// !p ==> a[w] < b[w]
	st.assume(Or(p, Lt(Select(a, w), Select(b, w))))
	x.prog.allGEDefs = append(x.prog.allGEDefs, &allGEDef{P: p, A: a, B: b})
	return p
}

type allGEDef struct{ P, A, B *Term }

func (x *Exec) coinsPred(st *State, name string, a *Term, each func(*Term) *Term, all bool) *Term {
	p := x.freshTerm(name, SBool)
	w := x.freshTerm(name+"_w", SStr)
	st.assume(Or(p, Not(each(Select(a, w)))))
	x.prog.coinsPredDefs = append(x.prog.coinsPredDefs, &coinsPredDef{P: p, A: a, Each: each})
	return p
}

type coinsPredDef struct {
	P, A *Term
	Each func(*Term) *Term
}

// AccountVal: result of AccountKeeper.GetAccount (an AccountI that may be nil).
type AccountVal struct {
	Addr   *Term
	Exists *Term
}

func init() {
	theory["AccountKeeper.GetAccount"] = func(x *Exec, f *Frame, st *State, c *CallInfo) Val {
		return &AccountVal{Addr: c.T(2), Exists: UF("account_exists", SBool, c.T(2))}
	}
	for _, n := range []string{"AccountI", "ModuleAccountI"} {
		theory[n+".GetAddress"] = func(x *Exec, f *Frame, st *State, c *CallInfo) Val {
			if av, ok := c.Args[0].(*AccountVal); ok {
				return av.Addr
			}
			return x.freshTerm("accaddr", SBytes)
		}
	}
	theory["AccountKeeper.GetModuleAccount"] = func(x *Exec, f *Frame, st *State, c *CallInfo) Val {
		return &AccountVal{Addr: moduleAddr(c.T(2)), Exists: True}
	}
	theory["github.com/cometbft/cometbft/crypto.AddressHash"] = func(x *Exec, f *Frame, st *State, c *CallInfo) Val {
		var b *Term
		switch v := c.Args[0].(type) {
		case *Term:
			b = v
		case *EncVal:
			b = v.V
		}
		if b == nil || b.Sort != SBytes {
			return x.freshTerm("addrhash", SBytes)
		}
		a := UF("address_hash", SBytes, b)
		st.assume(And(Neq(a, BytesNil), Not(bytesEmpty(a))))
		return a
	}
	theory["(*math/big.Int).Sqrt"] = func(x *Exec, f *Frame, st *State, c *CallInfo) Val {
		n := c.T(1)
		x.panicSite(f, st, Lt(n, IntLit(0)), "big.Int.Sqrt of negative at "+c.Pos)
		r := x.freshTerm("isqrt", SInt)
		st.assume(And(Ge(r, IntLit(0)), Le(Mul(r, r), n), Lt(n, Mul(Add(r, IntLit(1)), Add(r, IntLit(1))))))
		if pv, ok := c.Args[0].(*PtrVal); ok {
			x.store(st, pv, r)
		}
		return c.Args[0]
	}
	theory["strconv.FormatBool"] = func(x *Exec, f *Frame, st *State, c *CallInfo) Val { return UF("fmt_bool", SStr, c.T(0)) }
	fmtBase := func(c *CallInfo) Val {
		// base 10 is the decimal rendering (the same term "%d" gives); another base is another function
		if b := c.T(1); b != nil && b.IsLit() && b.Lit.Int64() == 10 {
			return UF("fmt_int", SStr, c.T(0))
		}
		return UF("fmt_int_base", SStr, c.T(0), c.T(1))
	}
	theory["strconv.FormatUint"] = func(x *Exec, f *Frame, st *State, c *CallInfo) Val { return fmtBase(c) }
	theory["strconv.FormatInt"] = func(x *Exec, f *Frame, st *State, c *CallInfo) Val { return fmtBase(c) }
	theory["strconv.Itoa"] = func(x *Exec, f *Frame, st *State, c *CallInfo) Val { return UF("fmt_int", SStr, c.T(0)) }
}

const nanos = 1000000000

func init() {
	theory[pCtx+"BlockHeader"] = func(x *Exec, f *Frame, st *State, c *CallInfo) Val {
		s := SortOf(c.ResTyp)
		if s == nil || s.Kind != KData {
			return x.freshVal(st, c.ResTyp, "header")
		}
		h := Sym("w0_header", s)
		if i := s.FieldIndex("Time"); i >= 0 {
			h = WithField(h, i, st.world.get("time"))
		}
		if i := s.FieldIndex("Height"); i >= 0 {
			h = WithField(h, i, st.world.get("height"))
		}
		return h
	}
	theory[pCtx+"HeaderHash"] = func(x *Exec, f *Frame, st *State, c *CallInfo) Val { return Sym("w0_headerhash", SBytes) }
	theory["time.Unix"] = func(x *Exec, f *Frame, st *State, c *CallInfo) Val {
		return Add(Mul(c.T(0), IntLit(nanos)), c.T(1))
	}
	theory["(time.Time).After"] = intBin(Gt)
	theory["(time.Time).Before"] = intBin(Lt)
	theory["(time.Time).Equal"] = intBin(Eq)
	theory["(time.Time).Sub"] = intBin(Sub)
	theory["(time.Time).Add"] = intBin(Add)
	theory["(time.Time).Unix"] = func(x *Exec, f *Frame, st *State, c *CallInfo) Val { return EDiv(c.T(0), IntLit(nanos)) }
	theory["(time.Time).UnixNano"] = func(x *Exec, f *Frame, st *State, c *CallInfo) Val { return c.T(0) }
	theory["(time.Time).IsZero"] = func(x *Exec, f *Frame, st *State, c *CallInfo) Val {
		return UF("time_iszero", SBool, c.T(0))
	}
	theory["(time.Time).UTC"] = func(x *Exec, f *Frame, st *State, c *CallInfo) Val { return c.T(0) }
	theory["(time.Duration).Seconds"] = func(x *Exec, f *Frame, st *State, c *CallInfo) Val {
		return App("/", SReal, App("to_real", SReal, c.T(0)), App("to_real", SReal, IntLit(nanos)))
	}
}

func be32(v *Term) *Term { return UF("be32", SBytes, v) }

func init() {
	theory["(encoding/binary.bigEndian).PutUint32"] = func(x *Exec, f *Frame, st *State, c *CallInfo) Val {
		v := c.T(2)
		b := be32(v)
		st.assume(Eq(UF("be32_inv", SInt, b), v))
		switch d := c.Args[1].(type) {
		case *BufVal:
			d.Parts = append(d.Parts, bufPart{Val: b})
		case *BufView:
			d.Buf.Parts = append(d.Buf.Parts, bufPart{Off: d.Lo, Val: b})
		}
		return nil
	}
	hash := func(name string) TheoryFn {
		return func(x *Exec, f *Frame, st *State, c *CallInfo) Val {
			b := x.asBytes(st, c.Args[0])
			if b == nil {
				return x.freshTerm("hash", SBytes)
			}
			h := UF(name, SBytes, b)
			// A-HASH: collision freedom = the hash has a left inverse
			st.assume(Eq(UF(name+"_pre", SBytes, h), b))
			st.assume(And(Neq(h, BytesNil), Not(bytesEmpty(h))))
			return h
		}
	}
	theory["github.com/cometbft/cometbft/crypto/tmhash.Sum"] = hash("sha256")
	theory["github.com/cometbft/cometbft/crypto/tmhash.SumTruncated"] = hash("sha256_trunc20")
	theory["encoding/hex.EncodeToString"] = func(x *Exec, f *Frame, st *State, c *CallInfo) Val {
		b := x.asBytes(st, c.Args[0])
		if b == nil {
			return x.freshTerm("hex", SStr)
		}
		h := UF("hex_of_bytes", SStr, b)
		st.assume(Eq(UF("bytes_of_hex", SBytes, h), b))
		return h
	}
	theory["encoding/hex.DecodeString"] = func(x *Exec, f *Frame, st *State, c *CallInfo) Val {
		s := c.T(0)
		e := x.freshTerm("hexerr", SErr)
		st.assume(Eq(Eq(e, ErrNil), UF("hex_ok", SBool, s)))
		// (decoding is not injective: it accepts both letter cases; only encode-then-decode is the identity)
		b := UF("bytes_of_hex", SBytes, s)
		return &TupleVal{[]Val{b, e}}
	}
}

func init() {
	theory["(github.com/cometbft/cometbft/libs/bytes.HexBytes).String"] = func(x *Exec, f *Frame, st *State, c *CallInfo) Val {
		b := x.asBytes(st, c.Args[0])
		if b == nil {
			return x.freshTerm("hexstr", SStr)
		}
		h := UF("hex_upper", SStr, b)
		// upper-case hex decodes back to the bytes (hex.DecodeString accepts both cases)
		st.assume(And(Eq(UF("bytes_of_hex", SBytes, h), b), UF("hex_ok", SBool, h)))
		return h
	}
}

func init() {
	h := func(x *Exec, f *Frame, st *State, c *CallInfo) Val {
		b := x.asBytes(st, c.Args[0])
		if b == nil {
			return x.freshTerm("hash", SBytes)
		}
		r := UF("sha256", SBytes, b)
		st.assume(Eq(UF("sha256_pre", SBytes, r), b))
		return r
	}
	theory["crypto/sha256.Sum256"] = h
}

func init() {
	theory["bytes.Equal"] = func(x *Exec, f *Frame, st *State, c *CallInfo) Val {
		a, b := x.asBytes(st, c.Args[0]), x.asBytes(st, c.Args[1])
		if a == nil || b == nil {
			return x.freshTerm("byteseq", SBool)
		}
		return Eq(a, b)
	}
}

func init() {
	theory["AccountKeeper.NewAccountWithAddress"] = func(x *Exec, f *Frame, st *State, c *CallInfo) Val {
		return &AccountVal{Addr: c.T(2), Exists: True}
	}
	theory["AccountKeeper.SetAccount"] = func(x *Exec, f *Frame, st *State, c *CallInfo) Val { return nil }
	theory["AccountKeeper.HasAccount"] = func(x *Exec, f *Frame, st *State, c *CallInfo) Val {
		return UF("account_exists", SBool, c.T(2))
	}
}

func init() {
	theory["(github.com/tidwall/gjson.Result).Float"] = func(x *Exec, f *Frame, st *State, c *CallInfo) Val {
		if t := c.T(0); t != nil {
			return UF("gjson_float<"+t.Sort.Name+">", SReal, t)
		}
		return x.freshTerm("float", SReal)
	}
	theory["strconv.FormatFloat"] = func(x *Exec, f *Frame, st *State, c *CallInfo) Val {
		return UF("format_float", SStr, c.T(0), c.T(1), c.T(2), c.T(3))
	}
}

// unwrapCoinsSlice: []Coin(c) for a Coins value c (variadic spreading c...) stands for c itself.
func unwrapCoinsSlice(t *Term) *Term {
	if t.kind == tUF && t.Op == "slice_of_coins" && len(t.Args) == 1 {
		return t.Args[0]
	}
	return t
}

// ---------------- EVM log decoding (go-ethereum abi): outside the model except for what a contract has to name.
// EventByID(id) is a fixed function of the topic: whether an event with that id exists (abi_event_ok) and its name
// (abi_event_name); Address.Hex() is a fixed function of the address bytes (addr_hex).
func init() {
	theory["(*github.com/ethereum/go-ethereum/accounts/abi.ABI).EventByID"] = func(x *Exec, f *Frame, st *State, c *CallInfo) Val {
		id := c.T(1)
		if id == nil {
			return &TupleVal{[]Val{&OpaqueVal{Name: "abi_event", Type: nil}, x.freshTerm("abi_err", SErr)}}
		}
		e := x.freshTerm("abi_event_err", SErr)
		st.assume(Eq(Eq(e, ErrNil), UF("abi_event_ok", SBool, id)))
		ov := &OpaqueVal{Name: "abi_event:" + id.String()}
		if rt, ok := c.ResTyp.(*types.Tuple); ok && rt.Len() == 2 {
			ov.Type = rt.At(0).Type()
		}
		if x.fieldOverride == nil {
			x.fieldOverride = map[string]*Term{}
		}
		x.fieldOverride[ov.Name+".Name"] = UF("abi_event_name", SStr, id)
		o := x.newObj(nil, "abi_event")
		st.mem[o] = ov
		return &TupleVal{[]Val{&PtrVal{Obj: o}, e}}
	}
	// Ethereum address conversions: functions of their argument (20-byte cropping / hex decoding not interpreted)
	theory["github.com/ethereum/go-ethereum/common.BytesToAddress"] = func(x *Exec, f *Frame, st *State, c *CallInfo) Val {
		if a := c.T(0); a != nil {
			return UF("bytes_to_addr", SBytes, a)
		}
		return x.freshTerm("ethaddr", SBytes)
	}
	theory["github.com/ethereum/go-ethereum/common.HexToAddress"] = func(x *Exec, f *Frame, st *State, c *CallInfo) Val {
		if a := c.T(0); a != nil {
			return UF("hex_to_addr", SBytes, a)
		}
		return x.freshTerm("ethaddr", SBytes)
	}
	theory["(github.com/ethereum/go-ethereum/common.Address).Bytes"] = func(x *Exec, f *Frame, st *State, c *CallInfo) Val {
		if a := c.T(0); a != nil {
			return a
		}
		return x.freshTerm("ethaddr", SBytes)
	}
	theory["(github.com/ethereum/go-ethereum/common.Address).Hex"] = func(x *Exec, f *Frame, st *State, c *CallInfo) Val {
		if a := c.T(0); a != nil {
			return UF("addr_hex", SStr, a)
		}
		return x.freshTerm("hex", SStr)
	}
}

// ---------------- protobuf timestamps (gogoproto types): a time (unix nanoseconds) splits into whole seconds and the
// nanosecond remainder, and is put together again; the range check of the real functions (years 1..9999) is outside the
// model (A-ENV: block times lie in that range), so the error result of the conversion to a timestamp is nil and the one
// of the conversion back is unconstrained (the code ignores it).
func init() {
	const gp = "github.com/cosmos/gogoproto/types."
	theory[gp+"TimestampProto"] = func(x *Exec, f *Frame, st *State, c *CallInfo) Val {
		t := c.T(0)
		rt, _ := c.ResTyp.(*types.Tuple)
		if t == nil || rt == nil || rt.Len() != 2 {
			return x.freshVal(st, c.ResTyp, "timestamp")
		}
		pt, _ := types.Unalias(rt.At(0).Type()).Underlying().(*types.Pointer)
		if pt == nil {
			return x.freshVal(st, c.ResTyp, "timestamp")
		}
		s := SortOf(pt.Elem())
		si, ni := -1, -1
		if s != nil && s.Kind == KData {
			si, ni = s.FieldIndex("Seconds"), s.FieldIndex("Nanos")
		}
		if si < 0 || ni < 0 {
			return x.freshVal(st, c.ResTyp, "timestamp")
		}
		ts := WithField(WithField(ZeroOf(s), si, EDiv(t, IntLit(nanos))), ni, EMod(t, IntLit(nanos)))
		o := x.newObj(pt.Elem(), "timestamp")
		st.mem[o] = ts
		x.assumed["A-ENV: block times lie within the protobuf timestamp range (years 1..9999)"] = true
		return &TupleVal{[]Val{&PtrVal{Obj: o}, ErrNil}}
	}
	theory[gp+"TimestampFromProto"] = func(x *Exec, f *Frame, st *State, c *CallInfo) Val {
		ts := c.T(0)
		if ts == nil || ts.Sort.Kind != KData {
			return x.freshVal(st, c.ResTyp, "time")
		}
		si, ni := ts.Sort.FieldIndex("Seconds"), ts.Sort.FieldIndex("Nanos")
		if si < 0 || ni < 0 {
			return x.freshVal(st, c.ResTyp, "time")
		}
		return &TupleVal{[]Val{Add(Mul(SelField(ts, si), IntLit(nanos)), SelField(ts, ni)), x.freshTerm("tserr", SErr)}}
	}
}

// ---------------- decimal parsing: strconv.ParseInt / ParseUint with base 10 and 64 bits are functions of the string
// (parse_int, parse_uint; success = parse_int_ok / parse_uint_ok), inverse to the decimal rendering fmt_int that
// FormatInt / Itoa / Sprintf("%d") give, and an unsigned number below 2^63 parses as a signed one with the same value.
func init() {
	parse := func(signed bool) TheoryFn {
		return func(x *Exec, f *Frame, st *State, c *CallInfo) Val {
			s, base, bits := c.T(0), c.T(1), c.T(2)
			if s == nil || base == nil || bits == nil || !base.IsLit() || base.Lit.Int64() != 10 || !bits.IsLit() || bits.Lit.Int64() != 64 {
				return x.freshVal(st, c.ResTyp, "parsed")
			}
			two63 := BigLit(new(big.Int).Lsh(big.NewInt(1), 63))
			two64 := BigLit(new(big.Int).Lsh(big.NewInt(1), 64))
			pi, pu := UF("parse_int", SInt, s), UF("parse_uint", SInt, s)
			iok, uok := UF("parse_int_ok", SBool, s), UF("parse_uint_ok", SBool, s)
			st.assume(And(Ge(pi, Neg(two63)), Lt(pi, two63), Ge(pu, IntLit(0)), Lt(pu, two64)))
			st.assume(Implies(And(uok, Lt(pu, two63)), And(iok, Eq(pi, pu))))
			v := NewBound("v", SInt)
			fv := UF("fmt_int", SStr, v)
			st.assume(Forall(v, Implies(And(Ge(v, Neg(two63)), Lt(v, two63)), And(UF("parse_int_ok", SBool, fv), Eq(UF("parse_int", SInt, fv), v))), fv))
			e := x.freshTerm("parseerr", SErr)
			if signed {
				st.assume(Eq(Eq(e, ErrNil), iok))
				return &TupleVal{[]Val{pi, e}}
			}
			st.assume(Eq(Eq(e, ErrNil), uok))
			return &TupleVal{[]Val{pu, e}}
		}
	}
	theory["strconv.ParseInt"] = parse(true)
	theory["strconv.ParseUint"] = parse(false)
}

// ---------------- the service module as seen from oracle / random (expected-keeper interface ServiceKeeper): reading a
// request context is a pure function of the service module's state and the id - two reads with no other call into the
// service keeper in between give the same answer (svcEpoch is a ghost that every other ServiceKeeper call advances).
func init() {
	theory["ServiceKeeper.GetRequestContext"] = func(x *Exec, f *Frame, st *State, c *CallInfo) Val {
		id := c.T(2)
		tup, _ := c.ResTyp.(*types.Tuple)
		if id == nil || tup == nil || tup.Len() != 2 {
			return x.freshVal(st, c.ResTyp, "reqctx")
		}
		s := SortOf(tup.At(0).Type())
		if s == nil {
			return x.freshVal(st, c.ResTyp, "reqctx")
		}
		ep := x.ghost(st, "svcEpoch", SInt)
		v := UF("svc_ctx<"+s.Name+">", s, ep, id)
		st.assume(TypeInv(v, tup.At(0).Type(), 0))
		return &TupleVal{[]Val{v, UF("svc_ctx_found", SBool, ep, id)}}
	}
}
