package main

import (
	"fmt"
	"os"
	"strconv"
	"strings"
)

// Bounded E-matching done by the VC generator.
//
// groundScript replaces every quantified assumption by ground instances obtained by matching trigger patterns against
// the ground terms of the VC, for a few rounds, and drops the quantifiers. Every instance is a consequence of the
// assumption it comes from, so the ground VC is weaker than the original one: "unsat" on it is a proof of the original
// obligation; anything else means "try the quantified VC". The ground VC is quantifier-free, so the solvers neither
// loop in their own instantiation nor give up with "unknown".

type grounder struct {
	index   map[string][]*Term // head -> ground terms with that head
	seen    map[*Term]bool     // ground terms already indexed
	done    map[string]bool    // instance keys already produced
	qmemo   map[*Term]bool
	out     []*Term
	budget  int
	changed bool
	depth   int
	gen     map[*Term]int // generation of each indexed ground term (0 = occurs in the original VC)
	curGen  int           // generation given to terms indexed now
	maxGen  int           // only terms up to this generation are used as match candidates
}

func headKey(t *Term) string {
	switch t.kind {
	case tApp:
		return fmt.Sprintf("a|%s|%d", t.Op, len(t.Args))
	case tUF:
		return fmt.Sprintf("u|%s|%d", t.Op, len(t.Args))
	case tSel:
		return fmt.Sprintf("s|%s|%s", t.Name, t.Args[0].Sort.String())
	case tCon:
		return fmt.Sprintf("c|%s|%d", t.Sort.String(), len(t.Args))
	}
	return ""
}

func isPatternHead(t *Term) bool {
	switch t.kind {
	case tUF, tSel, tCon:
		return len(t.Args) > 0
	case tApp:
		return t.Op == "select" || t.Op == "store"
	}
	return false
}

// addGround indexes all quantifier-free subterms of t that do not mention a bound variable.
func (g *grounder) addGround(t *Term) {
	var order []*Term
	collect(t, map[*Term]int{}, &order)
	hb := withBound(order)
	for _, s := range order {
		if hb[s] || g.seen[s] || s.kind == tQuant {
			continue
		}
		g.seen[s] = true
		g.gen[s] = g.curGen
		if isPatternHead(s) {
			k := headKey(s)
			g.index[k] = append(g.index[k], s)
			g.changed = true
			// matching is syntactic; reads over writes are offered in their possible simplified forms too
			// (instantiating with any term is sound)
			if g.depth < 3 {
				for _, v := range variants(s, 0) {
					if v != s && !g.seen[v] {
						g.depth++
						g.addGround(v)
						g.depth--
					}
				}
			}
		}
	}
}

// variants of a ground term under "select(store(a,i,v),j) is v or select(a,j)", pushed through selectors.
func variants(t *Term, depth int) []*Term {
	if depth > 6 {
		return []*Term{t}
	}
	switch {
	case t.kind == tApp && t.Op == "select" && len(t.Args) == 2:
		base, j := t.Args[0], t.Args[1]
		var out []*Term
		if base.kind == tApp && base.Op == "store" && len(base.Args) == 3 {
			if base.Args[2].Sort == t.Sort {
				out = append(out, variants(base.Args[2], depth+1)...)
			}
			out = append(out, variants(Select(base.Args[0], j), depth+1)...)
		} else if base.kind == tApp && base.Op == "ite" && len(base.Args) == 3 {
			out = append(out, variants(Select(base.Args[1], j), depth+1)...)
			out = append(out, variants(Select(base.Args[2], j), depth+1)...)
		} else {
			for _, b := range variants(base, depth+1) {
				if b != base {
					out = append(out, variants(Select(b, j), depth+1)...)
				}
			}
		}
		out = append(out, t)
		if len(out) > 8 {
			out = out[:8]
		}
		return out
	case t.kind == tSel && len(t.Args) == 1:
		var out []*Term
		x := t.Args[0]
		if x.kind == tApp && x.Op == "ite" && len(x.Args) == 3 {
			out = append(out, variants(selLike(t, x.Args[1]), depth+1)...)
			out = append(out, variants(selLike(t, x.Args[2]), depth+1)...)
		} else {
			for _, b := range variants(x, depth+1) {
				if b != x {
					out = append(out, variants(selLike(t, b), depth+1)...)
				}
			}
		}
		out = append(out, t)
		if len(out) > 8 {
			out = out[:8]
		}
		return out
	}
	return []*Term{t}
}

// selLike applies the selector of t to another term of the same datatype.
func selLike(t, x *Term) *Term {
	if x.Sort != t.Args[0].Sort || t.Lit == nil {
		return t
	}
	return SelField(x, int(t.Lit.Int64()))
}

// match extends binding so that pattern p equals ground term t (syntactically; terms are hash-consed).
func match(p, t *Term, vars map[*Term]bool, b map[*Term]*Term) bool {
	if vars[p] {
		if cur, ok := b[p]; ok {
			return cur == t
		}
		if p.Sort != t.Sort {
			return false
		}
		b[p] = t
		return true
	}
	if p == t {
		return true
	}
	if p.kind != t.kind || p.Op != t.Op || p.Name != t.Name || len(p.Args) != len(t.Args) || p.Sort != t.Sort {
		return false
	}
	if len(p.Args) == 0 {
		return false // different leaves
	}
	for i := range p.Args {
		if !match(p.Args[i], t.Args[i], vars, b) {
			return false
		}
	}
	return true
}

func mentions(t *Term, vars map[*Term]bool, memo map[*Term]map[*Term]bool) map[*Term]bool {
	if m, ok := memo[t]; ok {
		return m
	}
	m := map[*Term]bool{}
	if vars[t] {
		m[t] = true
	}
	for _, a := range t.Args {
		for v := range mentions(a, vars, memo) {
			m[v] = true
		}
	}
	memo[t] = m
	return m
}

// autoPatterns: the minimal pattern-head subterms of body that mention all variables; if there is none, one
// multi-pattern made of a smallest subterm per variable.
func autoPatterns(body *Term, vars []*Term) [][]*Term {
	vset := map[*Term]bool{}
	for _, v := range vars {
		vset[v] = true
	}
	memo := map[*Term]map[*Term]bool{}
	var order []*Term
	collect(body, map[*Term]int{}, &order)
	full := map[*Term]bool{}
	for _, t := range order {
		if isPatternHead(t) && len(mentions(t, vset, memo)) == len(vars) {
			full[t] = true
		}
	}
	var res [][]*Term
	for _, t := range order {
		if !full[t] {
			continue
		}
		minimal := true
		var sub []*Term
		for _, a := range t.Args {
			collect(a, map[*Term]int{}, &sub)
		}
		for _, s := range sub {
			if full[s] {
				minimal = false
				break
			}
		}
		if minimal && !mentionsForeignBound(t, vset) {
			res = append(res, []*Term{t})
		}
	}
	if len(res) > 0 || len(vars) < 2 {
		return res
	}
	var multi []*Term
	for _, v := range vars {
		var best *Term
		for _, t := range order {
			if isPatternHead(t) && mentions(t, vset, memo)[v] && !mentionsForeignBound(t, vset) {
				if best == nil || termSize(t) < termSize(best) {
					best = t
				}
			}
		}
		if best == nil {
			return nil
		}
		multi = append(multi, best)
	}
	return [][]*Term{multi}
}

func termSize(t *Term) int {
	n := 1
	for _, a := range t.Args {
		n += termSize(a)
	}
	return n
}

// mentionsForeignBound: t mentions a bound variable of some other (nested) quantifier.
func mentionsForeignBound(t *Term, mine map[*Term]bool) bool {
	if t.kind == tSym && strings.HasPrefix(t.Name, "bv!") && !mine[t] {
		return true
	}
	for _, a := range t.Args {
		if mentionsForeignBound(a, mine) {
			return true
		}
	}
	return false
}

func (g *grounder) hasQ(t *Term) bool { return hasQuant(t, g.qmemo) }

// instances returns ground consequences of the (positively occurring) formula f.
func (g *grounder) instances(f *Term) []*Term {
	if !g.hasQ(f) {
		return []*Term{f}
	}
	switch {
	case f.kind == tApp && f.Op == "and":
		var out []*Term
		for _, a := range f.Args {
			out = append(out, g.instances(a)...)
		}
		return out
	case f.kind == tApp && f.Op == "=>" && !g.hasQ(f.Args[0]):
		var out []*Term
		for _, i := range g.instances(f.Args[1]) {
			out = append(out, Implies(f.Args[0], i))
		}
		return out
	case f.kind == tApp && f.Op == "or":
		qi := -1
		for i, a := range f.Args {
			if g.hasQ(a) {
				if qi >= 0 {
					return nil
				}
				qi = i
			}
		}
		var out []*Term
		for _, inst := range g.instances(f.Args[qi]) {
			args := append([]*Term(nil), f.Args...)
			args[qi] = inst
			out = append(out, Or(args...))
		}
		return out
	case f.kind == tQuant:
		// merge the binder chain exactly as the printer does
		var vars []*Term
		q := f
		for {
			vars = append(vars, q.Args[1])
			if len(q.Args) == 2 && q.Args[0].kind == tQuant {
				q = q.Args[0]
				continue
			}
			break
		}
		body := q.Args[0]
		var alts [][]*Term
		if len(q.Args) > 2 {
			alts = [][]*Term{q.Args[2:]}
		} else {
			alts = autoPatterns(body, vars)
		}
		vset := map[*Term]bool{}
		for _, v := range vars {
			vset[v] = true
		}
		var out []*Term
		for _, pat := range alts {
			for _, b := range g.matchAll(pat, vset, len(vars)) {
				if g.budget <= 0 {
					return out
				}
				key := fmt.Sprintf("%d", f.id)
				for _, v := range vars {
					key += fmt.Sprintf("|%d", b[v].id)
				}
				if g.done[key] {
					continue
				}
				g.done[key] = true
				g.budget--
				inst := body
				mg := 0
				for _, v := range vars {
					inst = substitute(inst, v, b[v], map[*Term]*Term{})
					if g.gen[b[v]] > mg {
						mg = g.gen[b[v]]
					}
				}
				save := g.curGen
				g.curGen = mg + 1
				g.addGround(inst)
				out = append(out, g.instances(inst)...)
				g.curGen = save
			}
		}
		return out
	}
	return nil
}

// matchAll: all bindings of the variables such that every term of the multi-pattern matches some indexed ground term.
func (g *grounder) matchAll(pat []*Term, vars map[*Term]bool, nvars int) []map[*Term]*Term {
	bs := []map[*Term]*Term{{}}
	for _, p := range pat {
		cands := g.index[headKey(p)]
		var next []map[*Term]*Term
		for _, b := range bs {
			for _, t := range cands {
				nb := map[*Term]*Term{}
				for k, v := range b {
					nb[k] = v
				}
				if g.gen[t] > g.maxGen {
					continue
				}
				if match(p, t, vars, nb) {
					next = append(next, nb)
					if len(next) > 4000 {
						break
					}
				}
			}
		}
		bs = next
	}
	var out []map[*Term]*Term
	for _, b := range bs {
		if len(b) == nvars {
			out = append(out, b)
		}
	}
	return out
}

// groundObligation builds the quantifier-free variant of an obligation, or nil when the goal itself keeps a quantifier
// that cannot be moved to the assumptions.
func groundObligation(o *Obligation, rounds int) *Obligation {
	g := &grounder{index: map[string][]*Term{}, seen: map[*Term]bool{}, done: map[string]bool{}, qmemo: map[*Term]bool{}, budget: 6000, gen: map[*Term]int{}, maxGen: groundMaxGen()}
	goal := skolemizeQuant(o.Goal, true)
	var assumes []*Term
	assumes = append(assumes, o.Assumes...)
	if os.Getenv("GOVC_NOSIMP") == "" {
		assumes, goal = simplifyUnderFacts(assumes, goal)
	}
	// (A ==> B) with a quantified A: prove B assuming A
	for goal.kind == tApp && goal.Op == "=>" && g.hasQ(goal.Args[0]) {
		assumes = append(assumes, goal.Args[0])
		goal = goal.Args[1]
	}
	if g.hasQ(goal) {
		return nil
	}
	var quants, ground []*Term
	var flat []*Term
	var flatten func(t *Term)
	flatten = func(t *Term) {
		if t.kind == tApp && t.Op == "and" {
			for _, a := range t.Args {
				flatten(a)
			}
			return
		}
		flat = append(flat, t)
	}
	for _, a := range assumes {
		flatten(a)
	}
	for _, a := range flat {
		if g.hasQ(a) {
			quants = append(quants, a)
			g.addGround(a) // its ground subterms (symbols, arrays it talks about) are part of the term universe
		} else {
			ground = append(ground, a)
			g.addGround(a)
		}
	}
	if len(quants) == 0 {
		return nil // nothing to gain: the ordinary VC is already quantifier-free
	}
	g.addGround(goal)
	g.seedPointwise(o.prog)
	for r := 0; r < rounds; r++ {
		g.changed = false
		for _, q := range quants {
			for _, inst := range g.instances(q) {
				if !g.hasQ(inst) {
					ground = append(ground, inst)
				}
			}
		}
		if !g.changed || g.budget <= 0 {
			break
		}
	}
	seen := map[*Term]bool{}
	var uniq []*Term
	for _, t := range ground {
		if !seen[t] {
			seen[t] = true
			uniq = append(uniq, t)
		}
	}
	return &Obligation{Unit: o.Unit, Kind: o.Kind, Label: o.Label, Site: o.Site, Assumes: uniq, Goal: goal, Src: o.Src, prog: o.prog, Inputs: o.Inputs}
}

func groundMaxGen() int {
	if v := os.Getenv("GOVC_MAXGEN"); v != "" {
		if n, err := strconv.Atoi(v); err == nil {
			return n
		}
	}
	return 1
}

// ---------------------------------------------------------------------------------------------------------------
// Simplification under unit facts. Matching is syntactic, so before instantiating, the VC is rewritten with what
// the path condition states outright: atoms asserted true or false, and ground equalities (oriented towards the
// smaller term). The unit facts themselves stay in the VC, so the rewritten VC is equivalent to the original one.

func rebuildTerm(t *Term, args []*Term) *Term {
	switch t.kind {
	case tApp:
		switch t.Op {
		case "and":
			return And(args...)
		case "or":
			return Or(args...)
		case "not":
			return Not(args[0])
		case "=>":
			return Implies(args[0], args[1])
		case "ite":
			return Ite(args[0], args[1], args[2])
		case "=":
			if len(args) == 2 {
				if args[0].Sort == SBool {
					switch {
					case args[0].IsTrue():
						return args[1]
					case args[1].IsTrue():
						return args[0]
					case args[0].IsFalse():
						return Not(args[1])
					case args[1].IsFalse():
						return Not(args[0])
					}
				}
				return Eq(args[0], args[1])
			}
		case "select":
			return Select(args[0], args[1])
		case "store":
			return Store(args[0], args[1], args[2])
		}
	case tSel:
		if t.Lit != nil && args[0].Sort == t.Args[0].Sort {
			return SelField(args[0], int(t.Lit.Int64()))
		}
	case tCon:
		return Con(t.Sort, args...)
	}
	n := *t
	n.Args = args
	n.id = 0
	return intern(&n)
}

func rewriteWith(t *Term, sub map[*Term]*Term, memo map[*Term]*Term) *Term {
	if r, ok := memo[t]; ok {
		return r
	}
	if r, ok := sub[t]; ok {
		rr := rewriteWith(r, sub, memo)
		memo[t] = rr
		return rr
	}
	if len(t.Args) == 0 || t.kind == tQuant && false {
		memo[t] = t
		return t
	}
	changed := false
	args := make([]*Term, len(t.Args))
	for i, a := range t.Args {
		args[i] = rewriteWith(a, sub, memo)
		if args[i] != a {
			changed = true
		}
	}
	r := t
	if changed {
		r = rebuildTerm(t, args)
		if r2, ok := sub[r]; ok && r2 != r {
			r = rewriteWith(r2, sub, memo)
		}
	}
	memo[t] = r
	return r
}

func occursIn(needle, t *Term, memo map[*Term]bool) bool {
	if t == needle {
		return true
	}
	if v, ok := memo[t]; ok {
		return v
	}
	r := false
	for _, a := range t.Args {
		if occursIn(needle, a, memo) {
			r = true
			break
		}
	}
	memo[t] = r
	return r
}

// simplifyUnderFacts rewrites the assumptions and the goal with the unit facts among the assumptions.
func simplifyUnderFacts(assumes []*Term, goal *Term) ([]*Term, *Term) {
	for round := 0; round < 3; round++ {
		sub := map[*Term]*Term{}
		origin := map[*Term]bool{}
		qm := map[*Term]bool{}
		var flat []*Term
		var flatten func(t *Term)
		flatten = func(t *Term) {
			if t.kind == tApp && t.Op == "and" {
				for _, a := range t.Args {
					flatten(a)
				}
				return
			}
			flat = append(flat, t)
		}
		for _, a := range assumes {
			flatten(a)
		}
		for _, f := range flat {
			if hasQuant(f, qm) {
				continue
			}
			switch {
			case f.kind == tApp && f.Op == "=" && len(f.Args) == 2:
				a, b := f.Args[0], f.Args[1]
				if a.Sort == SBool {
					continue
				}
				// orient: replace the larger term by the smaller one; literals and symbols win
				sa, sb := termSize(a), termSize(b)
				if sa < sb || sa == sb && a.id < b.id {
					a, b = b, a
				}
				// now a is the larger: a -> b
				if a.kind == tIntLit || a.kind == tBoolLit || a.kind == tRealLit {
					continue
				}
				if len(a.Args) == 0 && len(b.Args) != 0 {
					continue
				}
				if occursIn(a, b, map[*Term]bool{}) {
					continue
				}
				if _, ok := sub[a]; !ok {
					sub[a] = b
					origin[f] = true
				}
			case f.kind == tApp && f.Op == "not" && f.Args[0].Sort == SBool && f.Args[0].kind != tBoolLit:
				x := f.Args[0]
				if x.kind == tApp && (x.Op == "and" || x.Op == "or") {
					continue
				}
				if _, ok := sub[x]; !ok {
					sub[x] = False
					origin[f] = true
				}
			case f.Sort == SBool && (f.kind == tSym || f.kind == tUF || f.kind == tSel || f.kind == tApp && (f.Op == "select" || f.Op == "<" || f.Op == "<=" || f.Op == ">" || f.Op == ">=")):
				if _, ok := sub[f]; !ok {
					sub[f] = True
					origin[f] = true
				}
			}
		}
		if len(sub) == 0 {
			break
		}
		// break cycles: a -> b and b -> a cannot both be present because of the orientation; chains are followed
		memo := map[*Term]*Term{}
		changed := false
		var out []*Term
		for _, f := range flat {
			// keep the defining fact itself
			if origin[f] {
				out = append(out, f)
				continue
			}
			r := rewriteWith(f, sub, memo)
			if r != f {
				changed = true
			}
			if !r.IsTrue() {
				out = append(out, r)
			}
		}
		g := rewriteWith(goal, sub, memo)
		if g != goal {
			changed = true
		}
		assumes, goal = out, g
		if !changed {
			break
		}
	}
	return assumes, goal
}

// seedPointwise: coin-array operations (R = A op B, allGE, coins predicates) are expanded index by index when the script
// is built, after grounding; their element terms at the denominations of the VC are offered to the matcher here.
func (g *grounder) seedPointwise(p *Program) {
	if p == nil {
		return
	}
	for iter := 0; iter < 4; iter++ {
		var strs []*Term
		for t := range g.seen {
			if t.Sort == SStr && g.gen[t] == 0 {
				strs = append(strs, t)
			}
		}
		if len(strs) > 40 {
			return
		}
		added := false
		add := func(arr *Term) {
			for _, i := range strs {
				t := Select(arr, i)
				if !g.seen[t] {
					g.addGround(t)
					added = true
				}
			}
		}
		for _, d := range p.pointwiseDefs {
			if g.seen[d.R] {
				add(d.R)
				add(d.A)
				add(d.B)
			}
		}
		for _, d := range p.allGEDefs {
			if g.seen[d.P] {
				add(d.A)
				add(d.B)
			}
		}
		for _, d := range p.coinsPredDefs {
			if g.seen[d.P] {
				add(d.A)
			}
		}
		if !added {
			return
		}
	}
}

// abstractNonlinear replaces products of two non-literal terms and divisions by non-literal terms with applications of
// uninterpreted functions. The result is weaker (only congruence is known about them), so "unsat" still proves the
// obligation; it keeps the solvers' nonlinear engines out of goals that only need equalities to propagate.
func abstractNonlinear(t *Term, memo map[*Term]*Term) *Term {
	if r, ok := memo[t]; ok {
		return r
	}
	if len(t.Args) == 0 {
		memo[t] = t
		return t
	}
	args := make([]*Term, len(t.Args))
	changed := false
	for i, a := range t.Args {
		args[i] = abstractNonlinear(a, memo)
		if args[i] != a {
			changed = true
		}
	}
	var r *Term
	nonlit := 0
	for _, a := range args {
		if a.kind != tIntLit && a.kind != tRealLit {
			nonlit++
		}
	}
	switch {
	case t.kind == tApp && t.Op == "*" && t.Sort == SInt && nonlit >= 2:
		// commutative: order the arguments
		as := append([]*Term(nil), args...)
		for i := 0; i < len(as); i++ {
			for j := i + 1; j < len(as); j++ {
				if as[j].id < as[i].id {
					as[i], as[j] = as[j], as[i]
				}
			}
		}
		r = as[0]
		for _, a := range as[1:] {
			r = UF("nl!mul", SInt, r, a)
		}
	case t.kind == tApp && (t.Op == "div" || t.Op == "mod" || t.Op == "tdiv") && len(args) == 2 && args[1].kind != tIntLit:
		r = UF("nl!"+t.Op, SInt, args[0], args[1])
	default:
		r = t
		if changed {
			n := *t
			n.Args = args
			n.id = 0
			r = intern(&n)
		}
	}
	memo[t] = r
	return r
}

func abstractObligation(o *Obligation) *Obligation {
	memo := map[*Term]*Term{}
	n := *o
	n.Assumes = make([]*Term, len(o.Assumes))
	for i, a := range o.Assumes {
		n.Assumes[i] = abstractNonlinear(a, memo)
	}
	n.Goal = abstractNonlinear(o.Goal, memo)
	return &n
}
