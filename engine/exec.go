package main

import (
	"fmt"
	"go/ast"
	"go/constant"
	"go/token"
	"go/types"
	"math/big"
	"sort"
	"strings"

	"golang.org/x/tools/go/ssa"
)

// ---------------------------------------------------------------------------------------
// Values

type Val interface{}

type Obj struct {
	id   int
	typ  types.Type
	name string
}

type pathElem struct {
	field int
	idx   *Term // array/slice index (symbolic or literal) when isIdx
	isIdx bool
}

type PtrVal struct {
	Obj  *Obj
	Path []pathElem
	Nil  *Term // non-nil: the pointer may be nil (condition); a dereference under it panics
}

type NilPtr struct{ Type types.Type }

type TupleVal struct{ Elems []Val }

type OpaqueVal struct {
	Name string
	Type types.Type
}

type ClosureVal struct {
	Fn       *ssa.Function
	Bindings []Val
}

type FuncVal struct{ Fn *ssa.Function }

// GoArray is a fixed-size array allocated locally (varargs etc.) whose elements are arbitrary Vals.
type GoArray struct{ Elems []Val }

// GoSlice is a slice over a GoArray (or list of Vals) known element-wise.
type GoSlice struct{ Elems []Val }

// GoStruct is a struct whose fields are not all SMT-representable (Keeper, closures' contexts).
type GoStruct struct {
	Type   types.Type
	Fields []Val
}

type IfaceVal struct {
	Dyn  Val
	Type types.Type // dynamic type
}

// ---------------------------------------------------------------------------------------
// State

type State struct {
	pc    []*Term
	mem   map[*Obj]Val
	world *World
	// ghost: facts names for reporting
	trace []string
	// iterator states, keyed by iterator id
	iters map[int]*IterState
	// walks over immutable Go map values (range loops), keyed by walk id
	miters map[int]*MapIterState
	facts map[*Term]bool
	// the world at the unit's last call of a registered module callback (A-CALLBACK), for atcallback()
	cbWorld *World
	dead  bool
	inBounds bool
	// panicked paths etc. handled by outcomes
}

func (s *State) clone() *State {
	n := &State{pc: append([]*Term(nil), s.pc...), mem: make(map[*Obj]Val, len(s.mem)), world: s.world.clone(), trace: append([]string(nil), s.trace...), dead: s.dead, cbWorld: s.cbWorld}
	for k, v := range s.mem {
		n.mem[k] = v
	}
	if s.iters != nil {
		n.iters = map[int]*IterState{}
		for k, v := range s.iters {
			c := *v
			n.iters[k] = &c
		}
	}
	if s.miters != nil {
		n.miters = map[int]*MapIterState{}
		for k, v := range s.miters {
			c := *v
			n.miters[k] = &c
		}
	}
	return n
}

// MapIterState: a range loop over a Go map value that nothing can write while it is walked (a map inside a struct
// value, e.g. a field of a genesis state): the walk visits every key present exactly once, in an unspecified order
// (seq is an arbitrary enumeration without repetition, pos its inverse).
type MapIterState struct {
	Map, Seq, N, Idx *Term
}
type MapIterVal struct{ ID int }

var mapIterCounter int

func (x *Exec) newMapIter(st *State, m *Term) Val {
	mapIterCounter++
	id := mapIterCounter
	ks := m.Sort.Fields[0].Sort.Key
	seq := x.freshTerm(fmt.Sprintf("mr%d_seq", id), ArraySort(SInt, ks))
	n := x.freshTerm(fmt.Sprintf("mr%d_n", id), SInt)
	pos := fmt.Sprintf("mr%d_pos", id)
	st.assume(Ge(n, IntLit(0)))
	has := SelField(m, 0)
	j := NewBound("j", SInt)
	kj := Select(seq, j)
	st.assume(Forall(j, Implies(And(Ge(j, IntLit(0)), Lt(j, n)), And(Select(has, kj), Eq(UF(pos, SInt, kj), j)))))
	k := NewBound("k", ks)
	pk := UF(pos, SInt, k)
	st.assume(Forall(k, Implies(Select(has, k), And(Ge(pk, IntLit(0)), Lt(pk, n), Eq(Select(seq, pk), k)))))
	if st.miters == nil {
		st.miters = map[int]*MapIterState{}
	}
	st.miters[id] = &MapIterState{Map: m, Seq: seq, N: n, Idx: IntLit(0)}
	return &MapIterVal{ID: id}
}

func (s *State) assume(t *Term) {
	if t == nil || t.IsTrue() {
		return
	}
	if t.kind == tApp && t.Op == "and" {
		for _, a := range t.Args {
			s.assume(a)
		}
		return
	}
	if s.facts == nil {
		s.facts = map[*Term]bool{}
		for _, p := range s.pc {
			s.facts[p] = true
		}
	}
	if s.facts[t] {
		return
	}
	if t.IsFalse() || s.facts[Not(t)] {
		s.dead = true
	}
	// equality with a literal contradicts another equality of the same term with a different literal
	s.facts[t] = true
	s.pc = append(s.pc, t)
}

func (s *State) infeasible() bool { return s.dead }

// ---------------------------------------------------------------------------------------
// Obligations

type Obligation struct {
	Unit    string // function under contract
	Kind    string // post, pre, inv-init, inv-keep, nopanic, assert, lemma, frame, vacuity...
	Label   string
	Site    string
	Assumes []*Term
	Goal    *Term
	Values  []*Term // symbolic inputs whose values are wanted in a model
	Inputs  map[string]*Term
	ExpectSat bool
	Src     string
	prog    *Program
	// result
	Res *SolverResult
}

func (o *Obligation) Name() string {
	n := o.Unit + "#" + o.Kind
	if o.Label != "" {
		n += ":" + o.Label
	}
	return n
}

// ---------------------------------------------------------------------------------------
// Executor

type Frame struct {
	fn     *ssa.Function
	regs   map[ssa.Value]Val
	loops  map[*ssa.BasicBlock]int // header -> ordinal (1-based)
	inLoop map[*ssa.BasicBlock]map[*ssa.BasicBlock]bool
	defers []func(st *State)
	depth  int
	// for the top-level unit only
	contract *Contract
	env      map[string]Val // spec variables (params, lets)
	callCount map[string]int
	loopEntry map[*ssa.BasicBlock]*loopCtx
	// the world as it stands right after the cut of each loop (what an iteration starts from)
	loopWorld map[*ssa.BasicBlock]*World
	loopPre   map[*ssa.BasicBlock]*World // ... and right before it
	parent   *Frame
	// slices whose elements are written through (&s[i]): register -> cell holding the current slice value
	sliceObjs map[ssa.Value]*PtrVal
	// source-level names of SSA values (from DebugRef): latest binding wins
	names map[string]ssa.Value
	// the store iterator a loop walks (the most recent one when the loop is first entered): it_idx, it_seq ... of the
	// loop's invariants refer to it, also after iterators created inside the body
	loopIter map[*ssa.BasicBlock]int
}

type loopCtx struct {
	entryState *State
}

type Outcome struct {
	st    *State
	rets  []Val
	panic bool
	desc  string
	env   map[string]Val // named locals of the top-level frame at the return site
}

type Exec struct {
	fieldOverride map[string]*Term // fields of named opaque objects that a theory entry defines
	opaqueLens map[*OpaqueVal]*Term
	rawKeys  bool // key-layout audit: key constructors are executed, not abstracted
	adapt    map[string]*loopAdapt // loops whose invariants were adapted to the code (adapt.go)
	prog     *Program
	unit     *Unit
	factSrc  map[*Term]string // provenance of labelled assumptions (for "by" hints)
	curState *State           // state of the instruction being executed (for conversions that add facts)
	obls     []*Obligation
	fresh    int
	objs     int
	paths    int
	maxPaths int
	inlined  map[string]bool
	assumed  map[string]bool // assumed contracts / theory entries used
	unknown  map[string]bool // unknown calls encountered
	errs     []string
	oldWorld *World
	entryPC  int
	inputs   map[string]*Term
	topLets  map[string]Val
}

type Unit struct {
	Fn       *ssa.Function
	Contract *Contract
	Name     string
}

var globalFresh int

// freshName: names are unique across all units of a run (pointwise definitions are looked up by name).
func (x *Exec) freshName(prefix string) string {
	globalFresh++
	return fmt.Sprintf("%s!%d", prefix, globalFresh)
}

func (x *Exec) freshTerm(prefix string, s *Sort) *Term {
	return Sym(x.freshName(prefix), s)
}

func (x *Exec) newObj(t types.Type, name string) *Obj {
	x.objs++
	return &Obj{id: x.objs, typ: t, name: name}
}

func (x *Exec) errorf(format string, args ...interface{}) {
	msg := fmt.Sprintf(format, args...)
	for _, e := range x.errs {
		if e == msg {
			return
		}
	}
	x.errs = append(x.errs, msg)
}

// freshVal creates an unconstrained symbolic value of Go type t.
func (x *Exec) freshVal(st *State, t types.Type, name string) Val {
	t = types.Unalias(t)
	if s := SortOf(t); s != nil {
		v := x.freshTerm(name, s)
		st.assume(TypeInv(v, t, 0))
		return v
	}
	switch u := t.Underlying().(type) {
	case *types.Pointer:
		if es := SortOf(u.Elem()); es != nil {
			o := x.newObj(u.Elem(), name)
			st.mem[o] = x.freshVal(st, u.Elem(), name+".*")
			return &PtrVal{Obj: o}
		}
		if _, ok := u.Elem().Underlying().(*types.Struct); ok {
			o := x.newObj(u.Elem(), name)
			st.mem[o] = &OpaqueVal{Name: name, Type: u.Elem()}
			return &PtrVal{Obj: o}
		}
	case *types.Tuple:
		tv := &TupleVal{}
		for i := 0; i < u.Len(); i++ {
			tv.Elems = append(tv.Elems, x.freshVal(st, u.At(i).Type(), fmt.Sprintf("%s.%d", name, i)))
		}
		return tv
	}
	return &OpaqueVal{Name: name, Type: t}
}

func zeroVal(t types.Type) Val {
	t = types.Unalias(t)
	if s := SortOf(t); s != nil {
		return ZeroOf(s)
	}
	switch t.Underlying().(type) {
	case *types.Pointer:
		return &NilPtr{t}
	}
	return &OpaqueVal{Name: "zero", Type: t}
}

// ---------------------------------------------------------------------------------------
// Memory access

func (x *Exec) load(st *State, p Val) Val {
	pv, ok := p.(*PtrVal)
	if !ok {
		if ov, ok := p.(*OpaqueVal); ok {
			// load through opaque pointer: opaque value of the elem type
			if pt, ok := ov.Type.Underlying().(*types.Pointer); ok {
				if s := SortOf(pt.Elem()); s != nil {
					return UFConst("deref:"+ov.Name, s)
				}
				return &OpaqueVal{Name: ov.Name + ".*", Type: pt.Elem()}
			}
		}
		x.errorf("load through unsupported pointer %T", p)
		return &OpaqueVal{Name: "badload"}
	}
	cur, ok := st.mem[pv.Obj]
	if !ok {
		x.errorf("load of unallocated object %s", pv.Obj.name)
		return &OpaqueVal{Name: "badload"}
	}
	return x.readPath(cur, pv.Path, pv.Obj.typ)
}

func UFConst(name string, s *Sort) *Term { return Sym(name, s) }

func (x *Exec) readPath(cur Val, path []pathElem, typ types.Type) Val {
	for _, pe := range path {
		cur = x.readElem(cur, pe)
	}
	return cur
}

func (x *Exec) readElem(cur Val, pe pathElem) Val {
	switch c := cur.(type) {
	case *Term:
		if pe.isIdx {
			if isSliceSort(c.Sort) {
				return Select(SelField(c, 1), pe.idx)
			}
			if c.Sort.Kind == KArray {
				return Select(c, pe.idx)
			}
			x.errorf("index into non-slice term %s", c.Sort)
			return c
		}
		if c.Sort.Kind != KData {
			x.errorf("field of non-struct term %s", c.Sort)
			return c
		}
		return SelField(c, pe.field)
	case *GoStruct:
		if pe.isIdx {
			x.errorf("index into struct")
			return c
		}
		return c.Fields[pe.field]
	case *GoArray:
		if pe.isIdx && pe.idx.IsLit() {
			i := int(pe.idx.Lit.Int64())
			if i >= 0 && i < len(c.Elems) {
				return c.Elems[i]
			}
		}
		x.errorf("symbolic index into local array")
		return &OpaqueVal{Name: "badindex"}
	case *OpaqueVal:
		return x.opaqueField(c, pe)
	}
	x.errorf("readElem on %T", cur)
	return &OpaqueVal{Name: "badread"}
}

func (x *Exec) opaqueField(c *OpaqueVal, pe pathElem) Val {
	if pe.isIdx {
		return &OpaqueVal{Name: c.Name + "[]"}
	}
	var stt *types.Struct
	if c.Type != nil {
		ut := c.Type.Underlying()
		if p, ok := ut.(*types.Pointer); ok {
			ut = p.Elem().Underlying()
		}
		stt, _ = ut.(*types.Struct)
	}
	if stt == nil || pe.field >= stt.NumFields() {
		return &OpaqueVal{Name: fmt.Sprintf("%s.#%d", c.Name, pe.field)}
	}
	f := stt.Field(pe.field)
	name := c.Name + "." + f.Name()
	if t, ok := x.fieldOverride[name]; ok {
		return t
	}
	if s := SortOf(f.Type()); s != nil {
		return Sym(name, s)
	}
	return &OpaqueVal{Name: name, Type: f.Type()}
}

func (x *Exec) store(st *State, p Val, v Val) {
	pv, ok := p.(*PtrVal)
	if !ok {
		x.errorf("store through unsupported pointer %T", p)
		return
	}
	cur := st.mem[pv.Obj]
	st.mem[pv.Obj] = x.writePath(cur, pv.Path, v)
}

func (x *Exec) writePath(cur Val, path []pathElem, v Val) Val {
	if len(path) == 0 {
		return v
	}
	pe := path[0]
	switch c := cur.(type) {
	case *Term:
		sub := x.readElem(c, pe)
		nv := x.writePath(sub, path[1:], v)
		nt, ok := nv.(*Term)
		if !ok {
			var want *Sort
			if !pe.isIdx && c.Sort.Kind == KData {
				want = c.Sort.Fields[pe.field].Sort
			}
			if want == SRef {
				switch pv := nv.(type) {
				case *PtrVal:
					nt = Sym(fmt.Sprintf("ref:obj%d", pv.Obj.id), SRef)
				case *NilPtr:
					nt = RefNil
				default:
					nt = Sym("ref:opaque", SRef)
				}
			} else if bv, isBV := nv.(*BufVal); isBV && want == SBytes && x.curState != nil {
				nt = x.bufBytes(x.curState, bv)
			} else if isPtrSort(want) && x.curState != nil {
				switch pv := nv.(type) {
				case *NilPtr:
					nt = Con(want, True, ZeroOf(want.Fields[1].Sort))
				case *PtrVal:
					if cur, ok := x.load(x.curState, pv).(*Term); ok && cur.Sort == want.Fields[1].Sort {
						nl := False
						if pv.Nil != nil {
							nl = pv.Nil
						}
						nt = Con(want, nl, cur)
					}
				}
				if nt == nil {
					x.errorf("storing %T into an optional-pointer field", nv)
					return c
				}
			} else if mr, isMR := nv.(*MapRef); isMR && want != nil && isMapSort(want) && x.curState != nil {
				// a Go map stored into a struct term: its current content (later updates through the map are not seen by the copy)
				if mt, ok := x.curState.mem[mr.Obj].(*Term); ok && mt.Sort == want {
					nt = mt
				} else {
					x.errorf("storing map of unexpected sort into term struct")
					return c
				}
			} else if gs, isGS := nv.(*GoSlice); isGS && want == SCoins && len(gs.Elems) <= 1 {
				// sdk.Coins{} / sdk.Coins{c} stored into a coins-valued field: the array view of the one listed coin
				nt = ZeroOf(SCoins)
				if len(gs.Elems) == 1 {
					ct, isT := gs.Elems[0].(*Term)
					if !isT || ct.Sort != SCoin {
						x.errorf("storing non-term %T into term struct", nv)
						return c
					}
					nt = Store(nt, SelField(ct, 0), SelField(ct, 1))
				}
			} else if gs, isGS := nv.(*GoSlice); isGS && want != nil && isSliceSort(want) {
				// a Go slice value with term elements stored into a struct term: build the slice term
				es := want.Fields[1].Sort.Elem
				arr := ZeroOf(want.Fields[1].Sort)
				okAll := true
				for i, e := range gs.Elems {
					et, isT := e.(*Term)
					if !isT && isPtrSort(es) && x.curState != nil {
						// an element that is a pointer to a message struct: optional value
						switch pv := e.(type) {
						case *NilPtr:
							et, isT = Con(es, True, ZeroOf(es.Fields[1].Sort)), true
						case *PtrVal:
							if cur, ok := x.load(x.curState, pv).(*Term); ok && cur.Sort == es.Fields[1].Sort {
								nl := False
								if pv.Nil != nil {
									nl = pv.Nil
								}
								et, isT = Con(es, nl, cur), true
							}
						}
					}
					if !isT || et == nil || et.Sort != es {
						okAll = false
						break
					}
					arr = Store(arr, IntLit(int64(i)), et)
				}
				if okAll {
					nt = Con(want, IntLit(int64(len(gs.Elems))), arr)
				} else {
					x.errorf("storing non-term %T into term struct", nv)
				}
			} else {
				x.errorf("storing non-term %T into term struct", nv)
				return c
			}
		}
		if pe.isIdx {
			if isSliceSort(c.Sort) {
				return WithField(c, 1, Store(SelField(c, 1), pe.idx, nt))
			}
			return Store(c, pe.idx, nt)
		}
		if nt.Sort != c.Sort.Fields[pe.field].Sort {
			x.errorf("store sort mismatch into %s.%s: %s", c.Sort, c.Sort.Fields[pe.field].Name, nt.Sort)
			return c
		}
		return WithField(c, pe.field, nt)
	case *GoStruct:
		n := &GoStruct{Type: c.Type, Fields: append([]Val(nil), c.Fields...)}
		n.Fields[pe.field] = x.writePath(c.Fields[pe.field], path[1:], v)
		return n
	case *GoArray:
		if pe.isIdx && pe.idx.IsLit() {
			i := int(pe.idx.Lit.Int64())
			n := &GoArray{Elems: append([]Val(nil), c.Elems...)}
			n.Elems[i] = x.writePath(c.Elems[i], path[1:], v)
			return n
		}
		x.errorf("symbolic index store into local array")
		return c
	case *OpaqueVal:
		// writes into opaque structs are dropped (unmodelled)
		return c
	}
	x.errorf("writePath on %T", cur)
	return cur
}

// ---------------------------------------------------------------------------------------
// Function analysis helpers

func findLoops(fn *ssa.Function) (map[*ssa.BasicBlock]int, map[*ssa.BasicBlock]map[*ssa.BasicBlock]bool) {
	headers := map[*ssa.BasicBlock]bool{}
	for _, b := range fn.Blocks {
		for _, s := range b.Succs {
			if s.Dominates(b) {
				headers[s] = true
			}
		}
	}
	var hs []*ssa.BasicBlock
	for h := range headers {
		hs = append(hs, h)
	}
	sort.Slice(hs, func(i, j int) bool { return hs[i].Index < hs[j].Index })
	ord := map[*ssa.BasicBlock]int{}
	body := map[*ssa.BasicBlock]map[*ssa.BasicBlock]bool{}
	for i, h := range hs {
		ord[h] = i + 1
		// natural loop: nodes that can reach a back-edge source without passing through h
		set := map[*ssa.BasicBlock]bool{h: true}
		var stack []*ssa.BasicBlock
		for _, p := range h.Preds {
			if h.Dominates(p) {
				stack = append(stack, p)
			}
		}
		for len(stack) > 0 {
			b := stack[len(stack)-1]
			stack = stack[:len(stack)-1]
			if set[b] {
				continue
			}
			set[b] = true
			stack = append(stack, b.Preds...)
		}
		body[h] = set
	}
	return ord, body
}

// ---------------------------------------------------------------------------------------
// Running a function

func (x *Exec) newFrame(fn *ssa.Function, parent *Frame) *Frame {
	f := &Frame{fn: fn, regs: map[ssa.Value]Val{}, parent: parent, callCount: map[string]int{}}
	if parent != nil {
		f.depth = parent.depth + 1
	}
	f.loops, f.inLoop = findLoops(fn)
	return f
}

// runFunction executes fn with args on st, returning one outcome per path.
func (x *Exec) runFunction(fn *ssa.Function, args []Val, bindings []Val, st *State, parent *Frame, contract *Contract) []*Outcome {
	if fn.Blocks == nil {
		x.errorf("function %s has no body", fn.String())
		return nil
	}
	f := x.newFrame(fn, parent)
	f.contract = contract
	if f.depth > 12 {
		x.errorf("inlining depth exceeded at %s", fn.String())
		return nil
	}
	for i, p := range fn.Params {
		if i < len(args) {
			f.regs[p] = args[i]
		}
	}
	for i, fv := range fn.FreeVars {
		if i < len(bindings) {
			f.regs[fv] = bindings[i]
		}
	}
	return x.execFrom(f, st, fn.Blocks[0], nil, 0)
}

func (x *Exec) value(f *Frame, st *State, v ssa.Value) Val {
	switch c := v.(type) {
	case *ssa.Const:
		return x.constVal(c)
	case *ssa.Function:
		return &FuncVal{c}
	case *ssa.Global:
		return x.globalVal(st, c)
	case *ssa.Builtin:
		return &OpaqueVal{Name: "builtin:" + c.Name()}
	}
	if p, ok := f.sliceObjs[v]; ok {
		return x.load(st, p)
	}
	if r, ok := f.regs[v]; ok {
		return r
	}
	x.errorf("%s: value %s (%T) has no binding", f.fn.Name(), v.Name(), v)
	return &OpaqueVal{Name: "unbound:" + v.Name(), Type: v.Type()}
}

func (x *Exec) constVal(c *ssa.Const) Val {
	t := types.Unalias(c.Type())
	if c.Value == nil {
		// nil or zero value
		if s := SortOf(t); s != nil {
			return ZeroOf(s)
		}
		return &NilPtr{t}
	}
	switch c.Value.Kind() {
	case constant.Bool:
		return BoolLit(constant.BoolVal(c.Value))
	case constant.Int:
		b, ok := new(big.Int).SetString(c.Value.ExactString(), 10)
		if !ok {
			x.errorf("bad int const %s", c.Value.ExactString())
			return IntLit(0)
		}
		if SortOf(t) == SReal {
			return intern(&Term{kind: tRealLit, Name: realLit(new(big.Rat).SetInt(b)), Sort: SReal})
		}
		return BigLit(b)
	case constant.String:
		if SortOf(t) == SBytes {
			return bytesOfStr(StrConst(constant.StringVal(c.Value)))
		}
		return StrConst(constant.StringVal(c.Value))
	case constant.Float:
		r, ok := new(big.Rat).SetString(c.Value.ExactString())
		if !ok {
			f, _ := constant.Float64Val(c.Value)
			r = new(big.Rat).SetFloat64(f)
		}
		return intern(&Term{kind: tRealLit, Name: realLit(r), Sort: SReal})
	}
	x.errorf("unsupported constant %s", c.String())
	return &OpaqueVal{Name: "const"}
}

func realLit(r *big.Rat) string {
	neg := r.Sign() < 0
	a := new(big.Rat).Abs(r)
	s := "(/ " + a.Num().String() + ".0 " + a.Denom().String() + ".0)"
	if neg {
		return "(- " + s + ")"
	}
	return s
}

func bytesOfStr(s *Term) *Term {
	if s.kind == tUF && s.Op == "str_of_bytes" {
		return s.Args[0]
	}
	return UF("bytes_of_str", SBytes, s)
}
func strOfBytes(b *Term) *Term {
	if b.kind == tUF && b.Op == "bytes_of_str" {
		return b.Args[0]
	}
	return UF("str_of_bytes", SStr, b)
}

func (x *Exec) globalVal(st *State, g *ssa.Global) Val {
	// A global is a pointer to its storage. We model package-level variables as immutable named
	// constants (sentinel errors, key prefixes, default denoms).
	o := x.prog.globalObj(x, g)
	if _, ok := st.mem[o]; !ok {
		elem := g.Type().(*types.Pointer).Elem()
		name := g.Pkg.Pkg.Name() + "." + g.Name()
		if s := SortOf(elem); s != nil {
			if s == SErr {
				st.mem[o] = Sym("err:"+g.Pkg.Pkg.Path()+"."+g.Name(), SErr)
			} else if cv := x.prog.globalConst(g); cv != nil && cv.Sort == s {
				st.mem[o] = cv
			} else {
				st.mem[o] = Sym("global:"+name, s)
			}
		} else {
			st.mem[o] = &OpaqueVal{Name: "global:" + name, Type: elem}
		}
	}
	return &PtrVal{Obj: o}
}

// execFrom continues execution of frame f at block b, instruction index i.
func (x *Exec) execFrom(f *Frame, st *State, b *ssa.BasicBlock, prev *ssa.BasicBlock, i int) []*Outcome {
	if st.infeasible() {
		return nil
	}
	if x.paths > x.maxPaths {
		x.errorf("path limit exceeded in %s", x.unit.Name)
		return nil
	}
	if i == 0 {
		// loop header handling
		if k, ok := f.loops[b]; ok {
			isBack := prev != nil && b.Dominates(prev)
			if res, done := x.loopHeader(f, st, b, prev, k, isBack); done {
				return res
			}
			// phis were set by loopHeader
			i = x.skipPhis(b)
		} else {
			// evaluate phis simultaneously
			var vals []Val
			var phis []*ssa.Phi
			for _, ins := range b.Instrs {
				phi, ok := ins.(*ssa.Phi)
				if !ok {
					break
				}
				idx := -1
				for j, p := range b.Preds {
					if p == prev {
						idx = j
						break
					}
				}
				if idx < 0 {
					x.errorf("phi without matching pred in %s", f.fn.Name())
					return nil
				}
				vals = append(vals, x.value(f, st, phi.Edges[idx]))
				phis = append(phis, phi)
			}
			for j, phi := range phis {
				f.regs[phi] = vals[j]
			}
			i = len(phis)
		}
	}
	for ; i < len(b.Instrs); i++ {
		ins := b.Instrs[i]
		switch in := ins.(type) {
		case *ssa.If:
			c, ok := x.value(f, st, in.Cond).(*Term)
			if !ok {
				x.errorf("%s: non-term condition", f.fn.Name())
				return nil
			}
			var outs []*Outcome
			if !c.IsFalse() {
				s1 := st
				if !c.IsTrue() {
					s1 = st.clone()
					s1.assume(c)
					x.paths++
				}
				f1 := f.fork()
				outs = append(outs, x.execFrom(f1, s1, b.Succs[0], b, 0)...)
			}
			if !c.IsTrue() {
				s2 := st
				s2.assume(Not(c))
				outs = append(outs, x.execFrom(f, s2, b.Succs[1], b, 0)...)
			}
			return outs
		case *ssa.Jump:
			return x.execFrom(f, st, b.Succs[0], b, 0)
		case *ssa.Return:
			var rets []Val
			for _, r := range in.Results {
				rets = append(rets, x.value(f, st, r))
			}
			for j := len(f.defers) - 1; j >= 0; j-- {
				f.defers[j](st)
			}
			var lenv map[string]Val
			if f.parent == nil {
				lenv = x.frameEnv(f, st, nil).vars
			}
			return []*Outcome{{st: st, rets: rets, env: lenv}}
		case *ssa.Panic:
			return []*Outcome{{st: st, panic: true, desc: "panic at " + x.pos(in.Pos())}}
		case *ssa.Call:
			x.curState = st
			conts := x.doCall(f, st, in, &in.Call)
			if conts == nil {
				return nil
			}
			if len(conts) == 1 && conts[0].st == st && !conts[0].panic {
				f.regs[in] = conts[0].val
				continue
			}
			var outs []*Outcome
			for _, c := range conts {
				if c.panic {
					outs = append(outs, &Outcome{st: c.st, panic: true, desc: c.desc})
					continue
				}
				fc := f.fork()
				fc.regs[in] = c.val
				outs = append(outs, x.execFrom(fc, c.st, b, prev, i+1)...)
			}
			return outs
		default:
			if !x.step(f, st, ins) {
				return nil
			}
		}
	}
	return nil
}

func (f *Frame) fork() *Frame {
	n := *f
	n.regs = make(map[ssa.Value]Val, len(f.regs))
	for k, v := range f.regs {
		n.regs[k] = v
	}
	n.defers = append(([]func(*State))(nil), f.defers...)
	n.callCount = map[string]int{}
	for k, v := range f.callCount {
		n.callCount[k] = v
	}
	if f.names != nil {
		n.names = make(map[string]ssa.Value, len(f.names))
		for k, v := range f.names {
			n.names[k] = v
		}
	}
	if f.sliceObjs != nil {
		n.sliceObjs = make(map[ssa.Value]*PtrVal, len(f.sliceObjs))
		for k, v := range f.sliceObjs {
			n.sliceObjs[k] = v
		}
	}
	if f.loopPre != nil {
		n.loopPre = make(map[*ssa.BasicBlock]*World, len(f.loopPre))
		for k, v := range f.loopPre {
			n.loopPre[k] = v
		}
	}
	if f.loopWorld != nil {
		n.loopWorld = make(map[*ssa.BasicBlock]*World, len(f.loopWorld))
		for k, v := range f.loopWorld {
			n.loopWorld[k] = v
		}
	}
	if f.loopIter != nil {
		n.loopIter = make(map[*ssa.BasicBlock]int, len(f.loopIter))
		for k, v := range f.loopIter {
			n.loopIter[k] = v
		}
	}
	return &n
}

func (x *Exec) skipPhis(b *ssa.BasicBlock) int {
	i := 0
	for i < len(b.Instrs) {
		if _, ok := b.Instrs[i].(*ssa.Phi); !ok {
			break
		}
		i++
	}
	return i
}

func (x *Exec) pos(p token.Pos) string {
	if !p.IsValid() {
		return "?"
	}
	ps := x.prog.fset.Position(p)
	return fmt.Sprintf("%s:%d", shortFile(ps.Filename), ps.Line)
}

func shortFile(f string) string {
	if i := strings.Index(f, "/modules/"); i >= 0 {
		return f[i+1:]
	}
	return f
}

// step executes a non-control instruction. Returns false to abort the path.
func (x *Exec) step(f *Frame, st *State, ins ssa.Instruction) bool {
	x.curState = st
	switch in := ins.(type) {
	case *ssa.Alloc:
		elem := in.Type().(*types.Pointer).Elem()
		o := x.newObj(elem, in.Comment)
		if at, ok := elem.Underlying().(*types.Array); ok && SortOf(elem) != SBytes {
			arr := &GoArray{}
			for k := int64(0); k < at.Len(); k++ {
				arr.Elems = append(arr.Elems, zeroVal(at.Elem()))
			}
			st.mem[o] = arr
		} else if s := SortOf(elem); s != nil {
			st.mem[o] = ZeroOf(s)
		} else if stt, ok := elem.Underlying().(*types.Struct); ok {
			gs := &GoStruct{Type: elem}
			for k := 0; k < stt.NumFields(); k++ {
				gs.Fields = append(gs.Fields, zeroVal(stt.Field(k).Type()))
			}
			st.mem[o] = gs
		} else {
			st.mem[o] = zeroVal(elem)
		}
		f.regs[in] = &PtrVal{Obj: o}
	case *ssa.Store:
		sv := x.value(f, st, in.Val)
		// a slice literal of representable elements stored into a variable is kept as the list of its elements
		if gs, ok := sv.(*GoSlice); ok {
			if rt := SortOf(in.Val.Type()); rt != nil && isSliceSort(rt) {
				cur := ZeroOf(rt)
				for _, e := range gs.Elems {
					et, ok := e.(*Term)
					if !ok || et.Sort != rt.Fields[1].Sort.Elem {
						cur = nil
						break
					}
					ln := SelField(cur, 0)
					cur = Con(rt, Add(ln, IntLit(1)), Store(SelField(cur, 1), ln, et))
				}
				if cur != nil {
					sv = cur
				}
			}
		}
		x.store(st, x.value(f, st, in.Addr), sv)
	case *ssa.UnOp:
		v := x.value(f, st, in.X)
		switch in.Op {
		case token.MUL:
			if _, isNil := v.(*NilPtr); isNil {
				x.panicSite(f, st, True, "nil dereference at "+x.pos(in.Pos()))
				return false
			}
			if pv, ok := v.(*PtrVal); ok && pv.Nil != nil {
				x.panicSite(f, st, pv.Nil, "nil dereference at "+x.pos(in.Pos()))
				st.assume(Not(pv.Nil))
			}
			f.regs[in] = x.boxIface(st, x.materializePtr(st, x.load(st, v), in.Type()), in.Type())
		case token.NOT:
			f.regs[in] = Not(v.(*Term))
		case token.SUB:
			t := v.(*Term)
			if t.Sort == SReal {
				f.regs[in] = App("-", SReal, t)
			} else {
				f.regs[in] = x.wrap(Neg(t), in.Type())
			}
		default:
			x.errorf("unsupported unop %s", in.Op)
			return false
		}
	case *ssa.BinOp:
		r, ok := x.binop(f, st, in)
		if !ok {
			return false
		}
		f.regs[in] = r
	case *ssa.FieldAddr:
		p := x.value(f, st, in.X)
		switch pv := p.(type) {
		case *PtrVal:
			if pv.Nil != nil {
				x.panicSite(f, st, pv.Nil, "nil pointer field access at "+x.pos(in.Pos()))
				st.assume(Not(pv.Nil))
			}
			np := &PtrVal{Obj: pv.Obj, Path: append(append([]pathElem(nil), pv.Path...), pathElem{field: in.Field})}
			f.regs[in] = np
		case *OpaqueVal:
			// pointer into an opaque object: materialise a cell for the field
			fv := x.opaqueField(pv, pathElem{field: in.Field})
			o := x.newObj(in.Type().(*types.Pointer).Elem(), pv.Name)
			st.mem[o] = fv
			f.regs[in] = &PtrVal{Obj: o}
		case *NilPtr:
			x.panicSite(f, st, True, "nil pointer field access at "+x.pos(in.Pos()))
			return false
		default:
			x.errorf("FieldAddr on %T", p)
			return false
		}
	case *ssa.Field:
		v := x.value(f, st, in.X)
		f.regs[in] = x.materializePtr(st, x.readElem(v, pathElem{field: in.Field}), in.Type())
	case *ssa.IndexAddr:
		p := x.value(f, st, in.X)
		idx, _ := x.value(f, st, in.Index).(*Term)
		if idx == nil {
			x.errorf("non-term index")
			return false
		}
		switch pv := p.(type) {
		case *PtrVal: // pointer to array
			f.regs[in] = &PtrVal{Obj: pv.Obj, Path: append(append([]pathElem(nil), pv.Path...), pathElem{isIdx: true, idx: idx})}
		case *Term: // slice value: element address = a fresh cell initialised with the element (read-only use)
			if pv.Sort == SCoins {
				f.regs[in] = x.coinsElemCell(f, st, pv, idx, in)
				break
			}
			if !isSliceSort(pv.Sort) {
				x.errorf("IndexAddr on term of sort %s", pv.Sort)
				return false
			}
			x.panicSite(f, st, Or(Lt(idx, IntLit(0)), Ge(idx, SelField(pv, 0))), "index out of range at "+x.pos(in.Pos()))
			f.regs[in] = x.sliceElemPtr(f, st, in.X, pv, idx)
		case *GoSlice:
			if idx.IsLit() {
				k := int(idx.Lit.Int64())
				if k >= 0 && k < len(pv.Elems) {
					o := x.newObj(in.Type().(*types.Pointer).Elem(), "elem")
					st.mem[o] = pv.Elems[k]
					f.regs[in] = &PtrVal{Obj: o}
					break
				}
			}
			x.errorf("symbolic index into Go-side slice")
			return false
		case *OpaqueVal:
			// element of an unmodelled list (e.g. the unpacked arguments of an EVM log): in range or panic, content unknown
			ln := x.opaqueLen(st, pv)
			x.panicSite(f, st, Or(Lt(idx, IntLit(0)), Ge(idx, ln)), "index out of range at "+x.pos(in.Pos()))
			et := in.Type().(*types.Pointer).Elem()
			o := x.newObj(et, "opaque_elem")
			st.mem[o] = x.freshVal(st, et, "elem")
			f.regs[in] = &PtrVal{Obj: o}
		default:
			x.errorf("IndexAddr on %T", p)
			return false
		}
	case *ssa.Index:
		v := x.value(f, st, in.X)
		idx, _ := x.value(f, st, in.Index).(*Term)
		f.regs[in] = x.readElem(v, pathElem{isIdx: true, idx: idx})
	case *ssa.Extract:
		tv, ok := x.value(f, st, in.Tuple).(*TupleVal)
		if !ok || in.Index >= len(tv.Elems) {
			x.errorf("%s: extract from non-tuple (%T) at %s", f.fn.Name(), x.value(f, st, in.Tuple), x.pos(in.Pos()))
			return false
		}
		f.regs[in] = tv.Elems[in.Index]
	case *ssa.MakeInterface:
		v := x.value(f, st, in.X)
		if SortOf(in.Type()) == SErr {
			// concrete error value boxed into error: non-nil error
			if t, ok := v.(*Term); ok && t.Sort == SErr {
				f.regs[in] = t
			} else {
				e := x.freshTerm("err", SErr)
				st.assume(Neq(e, ErrNil))
				f.regs[in] = e
			}
		} else {
			f.regs[in] = &IfaceVal{Dyn: v, Type: in.X.Type()}
		}
	case *ssa.ChangeInterface:
		f.regs[in] = x.value(f, st, in.X)
	case *ssa.ChangeType:
		if p, ok := f.sliceObjs[in.X]; ok {
			if f.sliceObjs == nil {
				f.sliceObjs = map[ssa.Value]*PtrVal{}
			}
			f.sliceObjs[in] = p // same backing array
		}
		f.regs[in] = x.convert(f, st, x.value(f, st, in.X), in.X.Type(), in.Type())
	case *ssa.Convert:
		f.regs[in] = x.convert(f, st, x.value(f, st, in.X), in.X.Type(), in.Type())
	case *ssa.TypeAssert:
		v := x.value(f, st, in.X)
		if iv, ok := v.(*IfaceVal); ok {
			if types.Identical(iv.Type, in.AssertedType) || types.IsInterface(in.AssertedType) {
				if in.CommaOk {
					f.regs[in] = &TupleVal{[]Val{iv.Dyn, True}}
				} else {
					f.regs[in] = iv.Dyn
				}
				break
			}
		}
		// unknown dynamic type
		r := x.freshVal(st, in.AssertedType, "assert")
		if in.CommaOk {
			f.regs[in] = &TupleVal{[]Val{r, x.freshTerm("ok", SBool)}}
		} else {
			x.panicSite(f, st, x.freshTerm("typeassert_fails", SBool), "type assertion at "+x.pos(in.Pos()))
			f.regs[in] = r
		}
	case *ssa.MakeClosure:
		cv := &ClosureVal{Fn: in.Fn.(*ssa.Function)}
		for _, b := range in.Bindings {
			cv.Bindings = append(cv.Bindings, x.value(f, st, b))
		}
		f.regs[in] = cv
	case *ssa.Slice:
		v := x.value(f, st, in.X)
		var lo, hi *Term
		if in.Low != nil {
			lo, _ = x.value(f, st, in.Low).(*Term)
		}
		if in.High != nil {
			hi, _ = x.value(f, st, in.High).(*Term)
		}
		switch sv := v.(type) {
		case *PtrVal: // slicing a local array
			loaded := x.load(st, sv)
			arr, ok := loaded.(*GoArray)
			if ok && lo == nil && hi == nil {
				if len(arr.Elems) == 0 && SortOf(in.Type()) == SCoins {
					f.regs[in] = ZeroOf(SCoins) // sdk.Coins{}
					break
				}
				f.regs[in] = &GoSlice{Elems: arr.Elems}
				break
			}
			if bt, isT := loaded.(*Term); isT && bt.Sort == SBytes {
				// make([]byte, <constant>) is lowered to new [n]byte + slice: for the key-layout audit it is the same
				// piecewise-filled buffer a make with a variable length gives
				if al, isAlloc := in.X.(*ssa.Alloc); isAlloc && x.rawKeys && al.Comment == "makeslice" {
					if at, isArr := al.Type().(*types.Pointer).Elem().Underlying().(*types.Array); isArr && (hi == nil || (hi.IsLit() && hi.Lit.Int64() == at.Len())) && lo == nil {
						f.regs[in] = &BufVal{ID: x.freshName("buf"), Len: IntLit(at.Len())}
						break
					}
				}
				f.regs[in] = x.sliceTerm(f, st, bt, lo, hi, in)
				break
			}
			x.errorf("unsupported slice of pointer")
			return false
		case *GoSlice:
			if lo == nil && hi == nil {
				f.regs[in] = sv
				break
			}
			x.errorf("unsupported reslice of Go-side slice")
			return false
		case *Term:
			f.regs[in] = x.sliceTerm(f, st, sv, lo, hi, in)
		case *KeyVal:
			f.regs[in] = x.sliceKey(st, sv, lo, hi, in)
		case *EncVal:
			f.regs[in] = x.freshVal(st, in.Type(), "slice")
		case *BufVal:
			f.regs[in] = &BufView{Buf: sv, Lo: lo, Hi: hi}
		default:
			x.errorf("slice of %T", v)
			return false
		}
	case *ssa.MakeSlice:
		s := SortOf(in.Type())
		ln, _ := x.value(f, st, in.Len).(*Term)
		if s == nil || ln == nil {
			f.regs[in] = x.freshVal(st, in.Type(), "makeslice")
			break
		}
		if s == SBytes {
			f.regs[in] = &BufVal{ID: x.freshName("buf"), Len: ln}
			break
		}
		if !isSliceSort(s) || len(s.Fields) < 2 {
			// a named slice type with a sort of its own (sdk.Coins ...): the empty value when made with length 0
			if ln.IsLit() && ln.Lit.Sign() == 0 {
				f.regs[in] = ZeroOf(s)
			} else {
				f.regs[in] = x.freshVal(st, in.Type(), "makeslice")
			}
			break
		}
		f.regs[in] = Con(s, ln, ZeroOf(s.Fields[1].Sort))
	case *ssa.MakeMap:
		s := SortOf(in.Type())
		if s == nil {
			f.regs[in] = &OpaqueVal{Name: "map", Type: in.Type()}
			break
		}
		// maps are reference types: allocate an object and pass a pointer-like handle
		o := x.newObj(in.Type(), "map")
		st.mem[o] = ZeroOf(s)
		f.regs[in] = &MapRef{Obj: o}
	case *ssa.MapUpdate:
		m := x.value(f, st, in.Map)
		k, _ := x.value(f, st, in.Key).(*Term)
		v, _ := x.value(f, st, in.Value).(*Term)
		if _, opaque := m.(*OpaqueVal); opaque {
			break // a map outside the model (pointer-valued ...): its content is unknown whenever it is read
		}
		mr, ok := m.(*MapRef)
		if !ok || k == nil || v == nil {
			x.errorf("unsupported map update (%T)", m)
			return false
		}
		cur := st.mem[mr.Obj].(*Term)
		st.mem[mr.Obj] = Con(cur.Sort, Store(SelField(cur, 0), k, True), Store(SelField(cur, 1), k, v))
	case *ssa.Lookup:
		m := x.value(f, st, in.X)
		k, _ := x.value(f, st, in.Index).(*Term)
		var cur *Term
		switch mv := m.(type) {
		case *MapRef:
			cur = st.mem[mv.Obj].(*Term)
		case *Term:
			cur = mv
		}
		if cur == nil || k == nil || !isMapSort(cur.Sort) {
			r := x.freshVal(st, in.Type(), "lookup")
			f.regs[in] = r
			break
		}
		has := Select(SelField(cur, 0), k)
		val := Ite(has, Select(SelField(cur, 1), k), ZeroOf(cur.Sort.Fields[1].Sort.Elem))
		if in.CommaOk {
			f.regs[in] = &TupleVal{[]Val{val, has}}
		} else {
			f.regs[in] = val
		}
	case *ssa.Defer:
		// only iterator.Close() and similar no-op defers are supported
		name := callName(&in.Call)
		if strings.HasSuffix(name, ".Close") || strings.Contains(name, "telemetry") {
			break
		}
		x.errorf("unsupported defer of %s", name)
		return false
	case *ssa.RunDefers:
	case *ssa.DebugRef:
		if id, ok := in.Expr.(*ast.Ident); ok && !in.IsAddr && id.Name != "_" {
			if f.names == nil {
				f.names = map[string]ssa.Value{}
			}
			f.names[id.Name] = in.X
		}
	case *ssa.Range:
		if m, ok := x.value(f, st, in.X).(*Term); ok && isMapSort(m.Sort) {
			// a map value (not a mutable map object): every key present is visited exactly once, in some order
			f.regs[in] = x.newMapIter(st, m)
			break
		}
		// over-approximation: the iteration yields arbitrarily many arbitrary (key, value) pairs
		x.assumed["range over a Go map / string at "+x.pos(in.Pos())+": elements unconstrained"] = true
		f.regs[in] = &OpaqueVal{Name: "maprange"}
	case *ssa.Next:
		tup, ok := in.Type().(*types.Tuple)
		if !ok || tup.Len() != 3 {
			x.errorf("%s: Next with unexpected type", f.fn.Name())
			return false
		}
		if mv, isMI := f.regs[in.Iter].(*MapIterVal); isMI && !in.IsString {
			if mi := st.miters[mv.ID]; mi != nil {
				key := Select(mi.Seq, mi.Idx)
				val := Select(SelField(mi.Map, 1), key)
				okv := Lt(mi.Idx, mi.N)
				st.assume(Implies(okv, TypeInv(key, tup.At(1).Type(), 0)))
				st.assume(Implies(okv, TypeInv(val, tup.At(2).Type(), 0)))
				mi.Idx = Add(mi.Idx, IntLit(1))
				f.regs[in] = &TupleVal{[]Val{okv, key, val}}
				break
			}
		}
		okv := x.freshTerm("next_ok", SBool)
		var kv, vv Val
		if b, isB := tup.At(1).Type().Underlying().(*types.Basic); !isB || b.Kind() != types.Invalid {
			kv = x.freshVal(st, tup.At(1).Type(), "next_key")
		}
		if b, isB := tup.At(2).Type().Underlying().(*types.Basic); !isB || b.Kind() != types.Invalid {
			vv = x.freshVal(st, tup.At(2).Type(), "next_val")
		}
		f.regs[in] = &TupleVal{[]Val{okv, kv, vv}}
	case *ssa.Go, *ssa.Select, *ssa.Send, *ssa.MakeChan:
		x.errorf("%s: concurrency construct outside subset", f.fn.Name())
		return false
	default:
		x.errorf("%s: unsupported instruction %T", f.fn.Name(), ins)
		return false
	}
	return true
}

type MapRef struct{ Obj *Obj }

// BufVal: a byte buffer created with make([]byte, n) and filled piecewise (copy, PutUint32...).
type BufVal struct {
	ID    string
	Len   *Term
	Parts []bufPart
}
type bufPart struct {
	Off *Term // nil = 0
	Val *Term // Bytes
}
type BufView struct {
	Buf    *BufVal
	Lo, Hi *Term
}

// bufBytes: the abstract content of a buffer: concatenation of its parts in write order.
func (x *Exec) bufBytes(st *State, b *BufVal) *Term {
	if len(b.Parts) == 0 {
		return UF("zero_bytes", SBytes, b.Len)
	}
	cur := b.Parts[0].Val
	for _, p := range b.Parts[1:] {
		n := UF("bytes_concat", SBytes, cur, p.Val)
		// a fixed-width suffix can be split off again (A-HASH style injectivity of the layout)
		if p.Val.kind == tUF && (p.Val.Op == "be32" || p.Val.Op == "be64") {
			st.assume(Eq(UF("concat_suffix_fixed", SBytes, n), p.Val))
			st.assume(Eq(UF("concat_prefix_fixed", SBytes, n), cur))
		}
		cur = n
	}
	return cur
}

// asBytes converts byte-like values to a Bytes term.
func (x *Exec) asBytes(st *State, v Val) *Term {
	switch b := v.(type) {
	case *Term:
		if b.Sort == SBytes {
			return b
		}
		if b.Sort == SStr {
			return bytesOfStr(b)
		}
	case *EncVal:
		if b.V.Sort == SBytes {
			return b.V
		}
		e := UF("enc<"+b.Enc+","+b.V.Sort.Name+">", SBytes, b.V)
		// A-CODEC: encoding is injective (decode is its left inverse)
		st.assume(Eq(UF("dec<"+b.Enc+","+b.V.Sort.Name+">", b.V.Sort, e), b.V))
		return e
	case *BufVal:
		return x.bufBytes(st, b)
	case *KeyVal:
		return UF("keybytes<"+b.Fam.Name+">", SBytes, b.Fam.key(b.Args))
	case *NilPtr:
		return BytesNil
	}
	return nil
}

func callName(c *ssa.CallCommon) string {
	if c.IsInvoke() {
		return types.TypeString(c.Value.Type(), nil) + "." + c.Method.Name()
	}
	if fn := c.StaticCallee(); fn != nil {
		return fn.String()
	}
	return c.Value.Name()
}

// bounds of simple terms (sym, sym +/- literal, literal) from the literal comparisons in the path condition
func (st *State) bounds(t *Term) (lo, hi *big.Int) {
	if t.IsLit() {
		return t.Lit, t.Lit
	}
	if t.kind == tApp && (t.Op == "+" || t.Op == "-") && len(t.Args) == 2 && !t.Args[1].IsLit() && !t.Args[0].IsLit() && t.Args[0].Sort == SInt {
		l0, h0 := st.bounds1(t.Args[0])
		l1, h1 := st.bounds1(t.Args[1])
		if t.Op == "+" {
			if l0 != nil && l1 != nil {
				lo = new(big.Int).Add(l0, l1)
			}
			if h0 != nil && h1 != nil {
				hi = new(big.Int).Add(h0, h1)
			}
		} else {
			if l0 != nil && h1 != nil {
				lo = new(big.Int).Sub(l0, h1)
			}
			if h0 != nil && l1 != nil {
				hi = new(big.Int).Sub(h0, l1)
			}
		}
		return
	}
	if t.kind == tApp && (t.Op == "+" || t.Op == "-") && len(t.Args) == 2 && t.Args[1].IsLit() {
		l, h := st.bounds(t.Args[0])
		c := t.Args[1].Lit
		if t.Op == "-" {
			c = new(big.Int).Neg(c)
		}
		if l != nil {
			lo = new(big.Int).Add(l, c)
		}
		if h != nil {
			hi = new(big.Int).Add(h, c)
		}
		return
	}
	upd := func(cur *big.Int, v *big.Int, isLo bool) *big.Int {
		if cur == nil || (isLo && v.Cmp(cur) > 0) || (!isLo && v.Cmp(cur) < 0) {
			return v
		}
		return cur
	}
	depthOK := !st.inBounds
	st.inBounds = true
	defer func() { st.inBounds = !depthOK }()
	var scan func(p *Term)
	scan = func(p *Term) {
		if p.kind != tApp {
			return
		}
		if p.Op == "and" {
			for _, a := range p.Args {
				scan(a)
			}
			return
		}
		if len(p.Args) != 2 {
			return
		}
		a, b := p.Args[0], p.Args[1]
		one := big.NewInt(1)
		switch {
		case a == t && b.IsLit():
			switch p.Op {
			case ">=":
				lo = upd(lo, b.Lit, true)
			case ">":
				lo = upd(lo, new(big.Int).Add(b.Lit, one), true)
			case "<=":
				hi = upd(hi, b.Lit, false)
			case "<":
				hi = upd(hi, new(big.Int).Sub(b.Lit, one), false)
			case "=":
				lo, hi = upd(lo, b.Lit, true), upd(hi, b.Lit, false)
			}
		case a == t && !b.IsLit() && depthOK:
			// t < y / t <= y with a known upper bound of y
			if p.Op == "<" || p.Op == "<=" {
				depthOK = false
				_, hy := st.bounds1(b)
				depthOK = true
				if hy != nil {
					if p.Op == "<" {
						hi = upd(hi, new(big.Int).Sub(hy, one), false)
					} else {
						hi = upd(hi, hy, false)
					}
				}
			}
		case b == t && a.IsLit():
			switch p.Op {
			case "<=":
				lo = upd(lo, a.Lit, true)
			case "<":
				lo = upd(lo, new(big.Int).Add(a.Lit, one), true)
			case ">=":
				hi = upd(hi, a.Lit, false)
			case ">":
				hi = upd(hi, new(big.Int).Sub(a.Lit, one), false)
			}
		}
	}
	for _, p := range st.pc {
		scan(p)
	}
	return
}

// bounds1: bounds of an atomic term (no recursion into arithmetic)
func (st *State) bounds1(t *Term) (lo, hi *big.Int) {
	if t.kind == tApp && (t.Op == "+" || t.Op == "-" || t.Op == "*") {
		if t.Args[1].IsLit() {
			return st.bounds(t)
		}
		return nil, nil
	}
	return st.bounds(t)
}

// wrapIn is wrap with knowledge of the path condition: no wrap-around term when the bounds exclude it.
func (x *Exec) wrapIn(st *State, t *Term, typ types.Type) *Term {
	lo, hi := intRange(typ)
	if lo == nil || t.IsLit() {
		return x.wrap(t, typ)
	}
	if l, h := st.bounds(t); l != nil && h != nil && l.Cmp(lo) >= 0 && h.Cmp(hi) <= 0 {
		return t
	}
	return x.wrap(t, typ)
}

// wrap applies machine-integer wrap-around for typed integers.
func (x *Exec) wrap(t *Term, typ types.Type) *Term {
	lo, hi := intRange(typ)
	if lo == nil {
		return t
	}
	if t.IsLit() {
		m := new(big.Int).Sub(hi, lo)
		m.Add(m, big.NewInt(1))
		v := new(big.Int).Sub(t.Lit, lo)
		v.Mod(v, m)
		v.Add(v, lo)
		return BigLit(v)
	}
	size := new(big.Int).Sub(hi, lo)
	size.Add(size, big.NewInt(1))
	return Ite(Gt(t, BigLit(hi)), Sub(t, BigLit(size)), Ite(Lt(t, BigLit(lo)), Add(t, BigLit(size)), t))
}

func (x *Exec) wrapMod(t *Term, typ types.Type) *Term {
	lo, hi := intRange(typ)
	if lo == nil {
		return t
	}
	size := new(big.Int).Sub(hi, lo)
	size.Add(size, big.NewInt(1))
	if t.IsLit() {
		return x.wrap(t, typ)
	}
	// ((t - lo) mod size) + lo
	return Add(EMod(Sub(t, BigLit(lo)), BigLit(size)), BigLit(lo))
}

func (x *Exec) binop(f *Frame, st *State, in *ssa.BinOp) (Val, bool) {
	a := x.value(f, st, in.X)
	b := x.value(f, st, in.Y)
	// nil comparisons on non-term values
	if in.Op == token.EQL || in.Op == token.NEQ {
		if r, ok := x.cmpSpecial(st, a, b); ok {
			if in.Op == token.NEQ {
				return Not(r), true
			}
			return r, true
		}
	}
	at, ok1 := a.(*Term)
	bt, ok2 := b.(*Term)
	if !ok1 || !ok2 {
		x.errorf("%s: binop %s on non-terms %T %T at %s", f.fn.Name(), in.Op, a, b, x.pos(in.Pos()))
		return nil, false
	}
	if at.Sort != bt.Sort {
		x.errorf("%s: binop %s sort mismatch %s/%s at %s", f.fn.Name(), in.Op, at.Sort, bt.Sort, x.pos(in.Pos()))
		return nil, false
	}
	typ := in.X.Type()
	switch in.Op {
	case token.EQL:
		return Eq(at, bt), true
	case token.NEQ:
		return Neq(at, bt), true
	case token.LSS:
		return Lt(at, bt), true
	case token.LEQ:
		return Le(at, bt), true
	case token.GTR:
		return Gt(at, bt), true
	case token.GEQ:
		return Ge(at, bt), true
	}
	if at.Sort == SReal {
		switch in.Op {
		case token.ADD:
			return App("+", SReal, at, bt), true
		case token.SUB:
			return App("-", SReal, at, bt), true
		case token.MUL:
			return App("*", SReal, at, bt), true
		case token.QUO:
			return App("/", SReal, at, bt), true
		}
	}
	if at.Sort == SBool {
		switch in.Op {
		case token.AND, token.LAND:
			return And(at, bt), true
		case token.OR, token.LOR:
			return Or(at, bt), true
		}
	}
	if at.Sort == SStr && in.Op == token.ADD {
		return UF("str_concat", SStr, at, bt), true
	}
	if at.Sort != SInt {
		x.errorf("%s: binop %s on sort %s", f.fn.Name(), in.Op, at.Sort)
		return nil, false
	}
	switch in.Op {
	case token.ADD:
		return x.wrapIn(st, Add(at, bt), typ), true
	case token.SUB:
		return x.wrapIn(st, Sub(at, bt), typ), true
	case token.MUL:
		return x.wrapMod(Mul(at, bt), typ), true
	case token.QUO:
		x.panicSite(f, st, Eq(bt, IntLit(0)), "integer division by zero at "+x.pos(in.Pos()))
		return x.wrap(TDiv(at, bt), typ), true
	case token.REM:
		x.panicSite(f, st, Eq(bt, IntLit(0)), "integer modulo by zero at "+x.pos(in.Pos()))
		return TRem(at, bt), true
	case token.SHL:
		if bt.IsLit() && bt.Lit.IsInt64() && bt.Lit.Int64() < 256 {
			return x.wrapMod(Mul(at, BigLit(new(big.Int).Lsh(big.NewInt(1), uint(bt.Lit.Int64())))), typ), true
		}
	case token.SHR:
		if bt.IsLit() && bt.Lit.IsInt64() && bt.Lit.Int64() < 256 {
			return EDiv(at, BigLit(new(big.Int).Lsh(big.NewInt(1), uint(bt.Lit.Int64())))), true
		}
	}
	// bit operations etc: opaque but functional
	return UF("binop_"+in.Op.String(), SInt, at, bt), true
}

func (x *Exec) cmpSpecial(st *State, a, b Val) (*Term, bool) {
	isNil := func(v Val) bool {
		if t, ok := v.(*Term); ok && t.kind == tSym && (t.Name == "bytes:nil" || t.Name == "ref:nil") {
			return true
		}
		_, ok := v.(*NilPtr)
		return ok
	}
	nilness := func(v Val) *Term {
		switch c := v.(type) {
		case *NilPtr:
			return True
		case *PtrVal:
			if c.Nil != nil {
				return c.Nil
			}
			return False
		case *EncVal:
			return c.Nil
		case *KeyVal:
			return False
		case *IfaceVal:
			return False
		case *MapRef:
			return False
		case *GoSlice:
			return BoolLit(len(c.Elems) == 0)
		case *ClosureVal, *FuncVal:
			return False
		case *OpaqueVal:
			return Sym("isnil:"+c.Name, SBool)
		case *AccountVal:
			return Not(c.Exists)
		case *Term:
			switch {
			case c.Sort == SBytes:
				return Eq(c, BytesNil)
			case c.Sort == SErr:
				return Eq(c, ErrNil)
			case isSliceSort(c.Sort):
				return Eq(SelField(c, 0), IntLit(0))
			case c.Sort == SCoins:
				return x.coinsPred(st, "coins_iszero", c, func(a *Term) *Term { return Eq(a, IntLit(0)) }, true)
			case c.Sort == SRef:
				return Eq(c, RefNil)
			}
		}
		return nil
	}
	_, aTerm := a.(*Term)
	_, bTerm := b.(*Term)
	if aTerm && bTerm {
		return nil, false
	}
	if isNil(a) && isNil(b) {
		return True, true
	}
	if isNil(b) {
		if n := nilness(a); n != nil {
			return n, true
		}
	}
	if isNil(a) {
		if n := nilness(b); n != nil {
			return n, true
		}
	}
	return nil, false
}

func (x *Exec) convert(f *Frame, st *State, v Val, from, to types.Type) Val {
	fs, ts := SortOf(from), SortOf(to)
	t, isTerm := v.(*Term)
	if isTerm && fs != nil && ts != nil {
		switch {
		case fs == ts:
			if fs == SInt {
				return x.wrapMod(t, to)
			}
			return t
		case fs == SStr && ts == SBytes:
			return bytesOfStr(t)
		case fs == SBytes && ts == SStr:
			return strOfBytes(t)
		case fs == SInt && ts == SReal:
			return App("to_real", SReal, t)
		case fs == SReal && ts == SInt:
			return x.wrapMod(App("to_int", SInt, t), to)
		case fs == SInt && ts == SStr:
			return UF("str_of_rune", SStr, t)
		case fs == SCoins && isSliceSort(ts):
			return UF("slice_of_coins", ts, t)
		case isSliceSort(fs) && ts == SCoins:
			return UF("coins_of_slice", SCoins, t)
		}
	}
	if ev, ok := v.(*EncVal); ok {
		if ts == SStr && ev.Enc == "str" {
			return ev.V
		}
		return ev
	}
	if kv, ok := v.(*KeyVal); ok {
		return kv
	}
	if !isTerm {
		return v
	}
	x.errorf("%s: unsupported conversion %s -> %s", f.fn.Name(), from, to)
	return x.freshVal(st, to, "conv")
}

func (x *Exec) sliceTerm(f *Frame, st *State, v *Term, lo, hi *Term, in *ssa.Slice) Val {
	if v.Sort == SBytes {
		l, h := "", ""
		if lo != nil {
			l = lo.String()
		}
		if hi != nil {
			h = hi.String()
		}
		if lo == nil && hi == nil {
			return v
		}
		if hi != nil && hi.IsLit() && hi.Lit.Sign() == 0 && (lo == nil || (lo.IsLit() && lo.Lit.Sign() == 0)) {
			return BytesNil // b[:0] is empty
		}
		return UF("bytes_slice_"+sanitizeFile(l)+"_"+sanitizeFile(h), SBytes, v)
	}
	if isSliceSort(v.Sort) {
		if lo == nil && hi == nil {
			return v
		}
		ln := SelField(v, 0)
		if lo == nil {
			lo = IntLit(0)
		}
		if hi == nil {
			hi = ln
		}
		x.panicSite(f, st, Or(Lt(lo, IntLit(0)), Gt(lo, hi), Gt(hi, ln)), "slice bounds out of range at "+x.pos(in.Pos()))
		if lo.IsLit() && lo.Lit.Sign() == 0 {
			return Con(v.Sort, hi, SelField(v, 1))
		}
		// shifted view: fresh array with pointwise fact is beyond QF; use UF shift
		arr := UF("slice_shift<"+v.Sort.Name+">", v.Sort.Fields[1].Sort, SelField(v, 1), lo)
		return Con(v.Sort, Sub(hi, lo), arr)
	}
	if v.Sort == SStr {
		return UF("str_slice", SStr, v, orZero(lo), orNeg(hi))
	}
	x.errorf("slice of term sort %s", v.Sort)
	return v
}

func orZero(t *Term) *Term {
	if t == nil {
		return IntLit(0)
	}
	return t
}
func orNeg(t *Term) *Term {
	if t == nil {
		return IntLit(-1)
	}
	return t
}

// panicSite records a potential panic with condition cond (true = panics). If the unit is nopanic an
// obligation is generated; in every case execution continues under the assumption !cond.
func (x *Exec) panicSite(f *Frame, st *State, cond *Term, desc string) {
	if cond.IsFalse() {
		return
	}
	if x.unit.Contract != nil && x.unit.Contract.NoPanic {
		x.oblige(st, "nopanic", siteLabel(desc), desc, Not(cond), "no panic: "+desc)
	}
	st.assume(Not(cond))
}

func siteLabel(desc string) string {
	// stable label: strip line numbers
	if i := strings.Index(desc, " at "); i >= 0 {
		return strings.ReplaceAll(desc[:i], " ", "_")
	}
	return strings.ReplaceAll(desc, " ", "_")
}

// tagFrom labels the facts added to st.pc since position n0 with their source (requires / invariant / callee ensures...).
func (x *Exec) tagFrom(st *State, n0 int, src string) {
	if x.factSrc == nil {
		x.factSrc = map[*Term]string{}
	}
	for i := n0; i < len(st.pc); i++ {
		if _, ok := x.factSrc[st.pc[i]]; !ok {
			x.factSrc[st.pc[i]] = src
		}
	}
}

func hasQuant(t *Term, memo map[*Term]bool) bool {
	if v, ok := memo[t]; ok {
		return v
	}
	r := t.kind == tQuant
	if !r {
		for _, a := range t.Args {
			if hasQuant(a, memo) {
				r = true
				break
			}
		}
	}
	memo[t] = r
	return r
}

// hintFilter: a "by <label>: src, ..." clause restricts the *quantified* labelled assumptions used for that obligation
// to the listed sources (prefix match). Dropping assumptions is sound; unlabelled facts are always kept.
func (x *Exec) hintFilter(kind, label string, pc []*Term) []*Term {
	if x.unit == nil || x.unit.Contract == nil {
		return pc
	}
	var srcs []string
	found := false
	for _, h := range x.unit.Contract.Hints {
		if h.Label == label || h.Label == kind+":"+label {
			srcs = append(srcs, h.From...)
			found = true
		}
	}
	if !found {
		return pc
	}
	memo := map[*Term]bool{}
	var out []*Term
	for _, t := range pc {
		src, ok := x.factSrc[t]
		if !ok || !hasQuant(t, memo) {
			out = append(out, t)
			continue
		}
		keep := false
		for _, s := range srcs {
			if src == s || strings.HasPrefix(src, s+":") || strings.HasPrefix(src, s+".") {
				keep = true
				break
			}
		}
		if keep {
			out = append(out, t)
		}
	}
	return out
}

func (x *Exec) oblige(st *State, kind, label, site string, goal *Term, src string) {
	if goal.IsTrue() {
		// trivially discharged; still counted
		x.obls = append(x.obls, &Obligation{Unit: x.unit.Name, Kind: kind, Label: label, Site: site, Goal: True, Src: src, Inputs: x.inputs})
		return
	}
	o := &Obligation{Unit: x.unit.Name, Kind: kind, Label: label, Site: site, Assumes: append([]*Term(nil), x.hintFilter(kind, label, st.pc)...), Goal: goal, Src: src, Inputs: x.inputs}
	x.obls = append(x.obls, o)
}

// sliceKey: slicing a complete store key at a declared field boundary yields that key component.
func (x *Exec) sliceKey(st *State, kv *KeyVal, lo, hi *Term, in *ssa.Slice) Val {
	if !kv.Partial && kv.Fam.Decl != nil && kv.Fam.Decl.Slices != nil {
		spec := ""
		if lo != nil && lo.IsLit() {
			spec += lo.Lit.String()
		}
		spec += ":"
		if hi != nil && hi.IsLit() {
			spec += hi.Lit.String()
		}
		if idx, ok := kv.Fam.Decl.Slices[spec]; ok && idx < len(kv.Args) {
			a := kv.Args[idx]
			want := SortOf(in.Type())
			if want == a.Sort || want == nil {
				return a
			}
			if want == SBytes && a.Sort == SStr {
				return bytesOfStr(a)
			}
			if want == SBytes && a.Sort == SInt {
				return &EncVal{Enc: "be64", V: a, Nil: False}
			}
		}
	}
	x.errorf("slice of store key of family %s at an undeclared boundary (%s)", kv.Fam.Name, x.pos(in.Pos()))
	return x.freshVal(st, in.Type(), "keyslice")
}

// coinsElemCell: coins[i] on the abstract coins value (Array Str Int): the i-th listed coin.
func (x *Exec) coinsElemCell(f *Frame, st *State, c *Term, idx *Term, in *ssa.IndexAddr) Val {
	ln := UF("coins_len", SInt, c)
	st.assume(lenRange(ln))
	x.panicSite(f, st, Or(Lt(idx, IntLit(0)), Ge(idx, ln)), "index out of range at "+x.pos(in.Pos()))
	d := UF("coins_denom_at", SStr, c, idx)
	amt := Select(c, d)
	st.assume(Ge(amt, IntLit(0)))
	if idx.IsLit() && idx.Lit.Sign() == 0 {
		// a one-coin list has no other denomination
		st.assume(Implies(Eq(ln, IntLit(1)), Eq(c, Store(ZeroOf(SCoins), d, amt))))
	}
	o := x.newObj(in.Type().(*types.Pointer).Elem(), "coin")
	st.mem[o] = Con(SCoin, d, amt)
	return &PtrVal{Obj: o}
}

// sliceElemPtr: &s[i] for a slice value. Writes through the result must be visible through the slice:
//  - a slice loaded from memory (struct field, local): pointer into that memory location;
//  - a pure SSA value (call result): the register is given a cell holding its current value.
func (x *Exec) sliceElemPtr(f *Frame, st *State, reg ssa.Value, cur *Term, idx *Term) Val {
	if ld, ok := reg.(*ssa.UnOp); ok && ld.Op == token.MUL {
		if pv, ok := f.regs[ld.X].(*PtrVal); ok {
			if now, ok := x.load(st, pv).(*Term); ok && now == cur {
				return &PtrVal{Obj: pv.Obj, Path: append(append([]pathElem(nil), pv.Path...), pathElem{isIdx: true, idx: idx})}
			}
		}
	}
	if f.sliceObjs == nil {
		f.sliceObjs = map[ssa.Value]*PtrVal{}
	}
	p, ok := f.sliceObjs[reg]
	if !ok {
		o := x.newObj(reg.Type(), "slice:"+reg.Name())
		st.mem[o] = cur
		p = &PtrVal{Obj: o}
		f.sliceObjs[reg] = p
	}
	return &PtrVal{Obj: p.Obj, Path: []pathElem{{isIdx: true, idx: idx}}}
}

// materializePtr: a pointer-typed value read out of a data term (optional-pointer field) becomes a pointer to a private
// copy of the pointee, carrying its nil condition (A-PTRFIELD: such pointees are not shared).
func (x *Exec) materializePtr(st *State, v Val, t types.Type) Val {
	tm, ok := v.(*Term)
	if !ok || !isPtrSort(tm.Sort) {
		return v
	}
	pt, ok := types.Unalias(t).Underlying().(*types.Pointer)
	if !ok {
		return v
	}
	o := x.newObj(pt.Elem(), "optptr")
	st.mem[o] = SelField(tm, 1)
	x.assumed["A-PTRFIELD: a message-typed pointer field is read as an optional value (pointee not shared)"] = true
	return &PtrVal{Obj: o, Nil: SelField(tm, 0)}
}

// boxIface: an element read out of a list of single-implementation interface values is that implementation value
// (behind a fresh pointer when the implementation is a pointer type).
func (x *Exec) boxIface(st *State, v Val, t types.Type) Val {
	tm, ok := v.(*Term)
	if !ok {
		return v
	}
	impl := ifaceImpl(t)
	if impl == nil {
		return v
	}
	if s := SortOf(derefType(impl)); s == nil || s != tm.Sort {
		return v
	}
	if _, isPtr := types.Unalias(impl).Underlying().(*types.Pointer); isPtr {
		o := x.newObj(derefType(impl), "elem")
		st.mem[o] = tm
		return &IfaceVal{Type: impl, Dyn: &PtrVal{Obj: o}}
	}
	return &IfaceVal{Type: impl, Dyn: tm}
}

// unboxElem: the value an interface or pointer stands for, as a list element.
func (x *Exec) unboxElem(st *State, v Val) Val {
	if iv, ok := v.(*IfaceVal); ok {
		v = iv.Dyn
	}
	if pv, ok := v.(*PtrVal); ok && pv.Nil == nil {
		if t, ok := x.load(st, pv).(*Term); ok {
			return t
		}
	}
	return v
}

// opaqueLen: the (unknown but fixed) length of an unmodelled list value.
func (x *Exec) opaqueLen(st *State, v *OpaqueVal) *Term {
	if x.opaqueLens == nil {
		x.opaqueLens = map[*OpaqueVal]*Term{}
	}
	if t, ok := x.opaqueLens[v]; ok {
		return t
	}
	t := x.freshTerm("opaque_len", SInt)
	st.assume(Ge(t, IntLit(0)))
	x.opaqueLens[v] = t
	return t
}
