package main

import (
	"go/types"
)

// A-NFT: assumed contract of the SDK x/nft keeper as an abstract ownership map (ghost world components):
//   nft.tokens  : Map<Key<nft>(class,id), nft.NFT>   has == the token exists
//   nft.owner   : Array Key<nft> Bytes
//   nft.classes : Map<Str, nft.Class>

var nftKeySort = DataSort("Key<nft>", []Field{{"k0", SStr}, {"k1", SStr}})

func (x *Exec) ghost(st *State, name string, s *Sort) *Term {
	if t := st.world.get(name); t != nil {
		return t
	}
	t := Sym("w0_"+name, s)
	st.world.comps[name] = t
	if x.oldWorld != nil && x.oldWorld.get(name) == nil {
		x.oldWorld.comps[name] = t
	}
	return t
}

func (x *Exec) setGhost(st *State, name string, t *Term) {
	st.world = st.world.clone()
	st.world.comps[name] = t
}

const pNK = "(cosmossdk.io/x/nft/keeper.Keeper)."

func nftKey(class, id *Term) *Term { return Con(nftKeySort, class, id) }

func init() {
	errIff := func(x *Exec, st *State, ok *Term, name string) *Term {
		e := x.freshTerm(name, SErr)
		st.assume(Eq(Eq(e, ErrNil), ok))
		return e
	}
	tokensOf := func(x *Exec, st *State, nftSort *Sort) *Term {
		return x.ghost(st, "nftTokens", MapSort(nftKeySort, nftSort))
	}
	ownerOf := func(x *Exec, st *State) *Term {
		return x.ghost(st, "nftOwner", ArraySort(nftKeySort, SBytes))
	}
	classesOf := func(x *Exec, st *State, cs *Sort) *Term {
		return x.ghost(st, "nftClasses", MapSort(SStr, cs))
	}
	resSort := func(c *CallInfo, i int) *Sort {
		if tup, ok := c.ResTyp.(*types.Tuple); ok {
			return SortOf(tup.At(i).Type())
		}
		return SortOf(c.ResTyp)
	}
	theory[pNK+"Mint"] = func(x *Exec, f *Frame, st *State, c *CallInfo) Val {
		tok := c.T(2)
		recv := c.T(3)
		toks := tokensOf(x, st, tok.Sort)
		k := nftKey(FieldByName(tok, "ClassId"), FieldByName(tok, "Id"))
		classes := st.world.get("nftClasses")
		ok := Not(famHas(toks, k))
		if classes != nil {
			ok = And(ok, famHas(classes, FieldByName(tok, "ClassId")))
		} else {
			ok = And(ok, UF("nft_class_exists", SBool, FieldByName(tok, "ClassId")))
		}
		e := errIff(x, st, ok, "minterr")
		x.setGhost(st, "nftTokens", Ite(ok, famSet(toks, k, tok), toks))
		ow := ownerOf(x, st)
		x.setGhost(st, "nftOwner", Ite(ok, Store(ow, k, recv), ow))
		return e
	}
	theory[pNK+"Burn"] = func(x *Exec, f *Frame, st *State, c *CallInfo) Val {
		k := nftKey(c.T(2), c.T(3))
		toks := st.world.get("nftTokens")
		if toks == nil {
			x.errorf("nft Burn before any token access")
			return x.freshTerm("burnerr", SErr)
		}
		ok := famHas(toks, k)
		e := errIff(x, st, ok, "burnerr")
		x.setGhost(st, "nftTokens", Ite(ok, famDel(toks, k), toks))
		ow := ownerOf(x, st)
		x.setGhost(st, "nftOwner", Ite(ok, Store(ow, k, BytesNil), ow))
		return e
	}
	theory[pNK+"Update"] = func(x *Exec, f *Frame, st *State, c *CallInfo) Val {
		tok := c.T(2)
		toks := tokensOf(x, st, tok.Sort)
		k := nftKey(FieldByName(tok, "ClassId"), FieldByName(tok, "Id"))
		ok := famHas(toks, k)
		e := errIff(x, st, ok, "updateerr")
		x.setGhost(st, "nftTokens", Ite(ok, famSet(toks, k, tok), toks))
		return e
	}
	theory[pNK+"Transfer"] = func(x *Exec, f *Frame, st *State, c *CallInfo) Val {
		k := nftKey(c.T(2), c.T(3))
		toks := st.world.get("nftTokens")
		var ok *Term
		if toks != nil {
			ok = famHas(toks, k)
		} else {
			ok = UF("nft_exists", SBool, k)
		}
		e := errIff(x, st, ok, "transfererr")
		ow := ownerOf(x, st)
		x.setGhost(st, "nftOwner", Ite(ok, Store(ow, k, c.T(4)), ow))
		return e
	}
	theory[pNK+"GetNFT"] = func(x *Exec, f *Frame, st *State, c *CallInfo) Val {
		s := resSort(c, 0)
		toks := tokensOf(x, st, s)
		k := nftKey(c.T(2), c.T(3))
		v := famGet(toks, k)
		// stored tokens are stored under their own ids (A-NFT)
		st.assume(Implies(famHas(toks, k), And(Eq(FieldByName(v, "ClassId"), c.T(2)), Eq(FieldByName(v, "Id"), c.T(3)))))
		return &TupleVal{[]Val{Ite(famHas(toks, k), v, ZeroOf(s)), famHas(toks, k)}}
	}
	theory[pNK+"HasNFT"] = func(x *Exec, f *Frame, st *State, c *CallInfo) Val {
		toks := st.world.get("nftTokens")
		if toks == nil {
			return UF("nft_exists", SBool, nftKey(c.T(2), c.T(3)))
		}
		return famHas(toks, nftKey(c.T(2), c.T(3)))
	}
	theory[pNK+"GetOwner"] = func(x *Exec, f *Frame, st *State, c *CallInfo) Val {
		return Select(ownerOf(x, st), nftKey(c.T(2), c.T(3)))
	}
	theory[pNK+"GetClass"] = func(x *Exec, f *Frame, st *State, c *CallInfo) Val {
		s := resSort(c, 0)
		cl := classesOf(x, st, s)
		v := famGet(cl, c.T(2))
		st.assume(Implies(famHas(cl, c.T(2)), Eq(FieldByName(v, "Id"), c.T(2))))
		return &TupleVal{[]Val{Ite(famHas(cl, c.T(2)), v, ZeroOf(s)), famHas(cl, c.T(2))}}
	}
	// listings (A-NFT): GetClasses returns every stored class exactly once, GetNFTsOfClass every token of the class
	// exactly once, in some fixed order (nft_class_pos / nft_token_pos are the positions)
	theory[pNK+"GetClasses"] = func(x *Exec, f *Frame, st *State, c *CallInfo) Val {
		ls := SortOf(c.ResTyp)
		if ls == nil || !isSliceSort(ls) || !isPtrSort(ls.Fields[1].Sort.Elem) {
			return x.freshVal(st, c.ResTyp, "classes")
		}
		cs := ls.Fields[1].Sort.Elem.Fields[1].Sort
		cl := classesOf(x, st, cs)
		l := x.freshTerm("nft_classes_list", ls)
		n := SelField(l, 0)
		st.assume(Ge(n, IntLit(0)))
		j := NewBound("j", SInt)
		ej := Select(SelField(l, 1), j)
		idj := FieldByName(SelField(ej, 1), "Id")
		st.assume(Forall(j, Implies(And(Ge(j, IntLit(0)), Lt(j, n)), And(Not(SelField(ej, 0)), famHas(cl, idj), Eq(SelField(ej, 1), famGet(cl, idj)), Eq(UF("nft_class_pos", SInt, l, idj), j)))))
		k := NewBound("k", SStr)
		pk := UF("nft_class_pos", SInt, l, k)
		st.assume(Forall(k, Implies(famHas(cl, k), And(Ge(pk, IntLit(0)), Lt(pk, n), Eq(FieldByName(SelField(Select(SelField(l, 1), pk), 1), "Id"), k)))))
		return l
	}
	theory[pNK+"GetNFTsOfClass"] = func(x *Exec, f *Frame, st *State, c *CallInfo) Val {
		ls := SortOf(c.ResTyp)
		class := c.T(2)
		if ls == nil || !isSliceSort(ls) || class == nil {
			return x.freshVal(st, c.ResTyp, "nfts")
		}
		ts := ls.Fields[1].Sort.Elem
		toks := tokensOf(x, st, ts)
		l := UF("nft_tokens_list<"+ls.Name+">", ls, toks, class)
		n := SelField(l, 0)
		st.assume(Ge(n, IntLit(0)))
		j := NewBound("j", SInt)
		ej := Select(SelField(l, 1), j)
		kj := nftKey(class, FieldByName(ej, "Id"))
		st.assume(Forall(j, Implies(And(Ge(j, IntLit(0)), Lt(j, n)), And(Eq(FieldByName(ej, "ClassId"), class), famHas(toks, kj), Eq(ej, famGet(toks, kj)), Eq(UF("nft_token_pos", SInt, l, FieldByName(ej, "Id")), j)))))
		k := NewBound("k", SStr)
		pk := UF("nft_token_pos", SInt, l, k)
		st.assume(Forall(k, Implies(famHas(toks, nftKey(class, k)), And(Ge(pk, IntLit(0)), Lt(pk, n), Eq(FieldByName(Select(SelField(l, 1), pk), "Id"), k)))))
		return l
	}
	theory[pNK+"HasClass"] = func(x *Exec, f *Frame, st *State, c *CallInfo) Val {
		cl := st.world.get("nftClasses")
		if cl == nil {
			return UF("nft_class_exists", SBool, c.T(2))
		}
		return famHas(cl, c.T(2))
	}
	theory[pNK+"SaveClass"] = func(x *Exec, f *Frame, st *State, c *CallInfo) Val {
		cls := c.T(2)
		cl := classesOf(x, st, cls.Sort)
		id := FieldByName(cls, "Id")
		ok := Not(famHas(cl, id))
		e := errIff(x, st, ok, "saveclasserr")
		x.setGhost(st, "nftClasses", Ite(ok, famSet(cl, id, cls), cl))
		return e
	}
	theory[pNK+"UpdateClass"] = func(x *Exec, f *Frame, st *State, c *CallInfo) Val {
		cls := c.T(2)
		cl := classesOf(x, st, cls.Sort)
		id := FieldByName(cls, "Id")
		ok := famHas(cl, id)
		e := errIff(x, st, ok, "updateclasserr")
		x.setGhost(st, "nftClasses", Ite(ok, famSet(cl, id, cls), cl))
		return e
	}
	// protobuf Any: a reference whose packed value can be recovered (A-CODEC)
	theory["github.com/cosmos/cosmos-sdk/codec/types.NewAnyWithValue"] = func(x *Exec, f *Frame, st *State, c *CallInfo) Val {
		var v Val = c.Args[0]
		if iv, ok := v.(*IfaceVal); ok {
			v = iv.Dyn
		}
		if pv, ok := v.(*PtrVal); ok {
			v = x.load(st, pv)
		}
		t, ok := v.(*Term)
		if !ok {
			return &TupleVal{[]Val{x.freshTerm("any", SRef), ErrNil}}
		}
		r := UF("any_of<"+t.Sort.Name+">", SRef, t)
		st.assume(Eq(UF("any_val<"+t.Sort.Name+">", t.Sort, r), t))
		st.assume(Neq(r, RefNil))
		return &TupleVal{[]Val{r, ErrNil}}
	}
	theory["(*github.com/cosmos/cosmos-sdk/codec/types.Any).GetValue"] = func(x *Exec, f *Frame, st *State, c *CallInfo) Val {
		if r := c.T(0); r != nil && r.Sort == SRef {
			return UF("any_bytes", SBytes, r)
		}
		return x.freshTerm("anybytes", SBytes)
	}
}
